------------------------------- MODULE MC_C03 -------------------------------
(* C03: every slice expression of depth <= Depth over a parent of length     *)
(* <= MaxLen with position-distinct content selects exactly the requested     *)
(* symbols; every step just past the end makes the access panic.              *)
EXTENDS MCBase
CONSTANTS MaxLen, Depth

\* position-distinct content: byte 65 + position (codec "text": every byte is a symbol)
Parent(n) == [i \in 1 .. n |-> 64 + i]

Checked(A, P) == A /\ Assert(P, "a slicing law fails on the specification")

\* all in-bounds paths of exactly k steps over a sequence of length n, with the
\* offset and length of the selected window: records [path, off, len]
RECURSIVE PathsIn(_, _)
PathsIn(n, k) ==
    IF k = 0 THEN {[path |-> <<>>, off |-> 0, len |-> n]}
    ELSE UNION {{[path |-> <<st>> \o p.path, off |-> Lo(st, n) + p.off, len |-> p.len]
                    : p \in PathsIn(Hi(st, n) - Lo(st, n), k - 1)} : st \in StepsIn(n)}

Probes(n) == <<0, n - 1, n, n + 1>>
GoodProbes(n) == [j \in 1 .. 4 |-> IF Probes(n)[j] < 0 THEN 0 ELSE Probes(n)[j]]

SliceLaw(p, n) ==
    LET src == [base |-> "reg", r |-> 0, path |-> p.path]
    IN  Checked(Obs(src, GoodProbes(p.len), GoodProbes(p.len)),
                /\ out'.v.len = p.len
                /\ out'.v.syms = SubSeq(Parent(n), p.off + 1, p.off + p.len)
                /\ \A i \in 1 .. p.len : out'.v.syms[i] = Parent(n)[p.off + i]
                /\ out'.empty = (p.len = 0)
                \* positional access: in range gives the symbol, beyond the end never does
                /\ \A j \in 1 .. 4 :
                      LET i == GoodProbes(p.len)[j]
                      IN  IF i < p.len
                          THEN out'.get[j] = Parent(n)[p.off + i + 1] /\ out'.nth[j] = out'.get[j]
                          ELSE out'.get[j] = -1 /\ out'.nth[j] = -2)

OutLaw(p, n) ==
    \E st \in StepsOut(p.len) :
        Checked(Obs([base |-> "reg", r |-> 0, path |-> p.path \o <<st>>], <<>>, <<>>), out' = Panic)

MCNext ==
    \/ \E n \in 0 .. MaxLen : FromSyms(0, "text", Parent(n))
    \/ /\ reg[0].c # "none"
       /\ \E k \in 0 .. Depth : \E p \in PathsIn(Len(reg[0].s), k) :
             SliceLaw(p, Len(reg[0].s)) \/ (k < Depth /\ OutLaw(p, Len(reg[0].s)))
MCSpec == Init /\ [][MCNext]_vars
=============================================================================
