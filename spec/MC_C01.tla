------------------------------- MODULE MC_C01 -------------------------------
(* C01: Parse over all byte strings of length <= MaxLen over a 5-byte        *)
(* alphabet per codec (two symbol characters, a byte that is a symbol in no   *)
(* codec, the case twin of a symbol, a non-ASCII byte), all seven codecs.     *)
EXTENDS MCBase
CONSTANTS MaxLen

BytesFor(c) ==
    {Items(c)[1].ch, Items(c)[Len(Items(c))].ch, 74, Items(c)[1].ch + 32, 195}

Checked(A, P) == A /\ Assert(P, "a parsing law fails on the specification")

ParseLaw(c, bytes) ==
    LET r == ParseRes(c, bytes)
        valid == \A i \in 1 .. Len(bytes) : FromAscii(c, bytes[i]) # NoSym
    IN  /\ r.ok <=> valid
        /\ r.ok => /\ Len(r.syms) = Len(bytes)
                   /\ \A i \in 1 .. Len(bytes) : r.syms[i] = FromAscii(c, bytes[i])
                   /\ ParseRes(c, Display(c, r.syms)).syms = r.syms            \* display -> parse
                   /\ Display(c, ParseRes(c, Display(c, r.syms)).syms) = Display(c, r.syms)
                   /\ Len(Pack(r.syms, W(c))) = Len(bytes) * W(c)
                   /\ Unpack(Pack(r.syms, W(c)), W(c)) = r.syms
        /\ ~r.ok => \E i \in 1 .. Len(bytes) :
                       /\ r.byte = bytes[i] /\ FromAscii(c, bytes[i]) = NoSym
                       /\ \A j \in 1 .. (i - 1) : FromAscii(c, bytes[j]) # NoSym

MCNext ==
    \E c \in CodecNames : \E bytes \in SeqsUpTo(BytesFor(c), MaxLen) :
        Checked(Parse(0, c, bytes),
                /\ ParseLaw(c, bytes)
                /\ (ParseRes(c, bytes).ok => reg'[0].s = ParseRes(c, bytes).syms /\ out'.v = View(c, reg'[0].s))
                /\ (~ParseRes(c, bytes).ok => reg' = reg /\ out'.byte = ParseRes(c, bytes).byte))
MCSpec == Init /\ [][MCNext]_vars
=============================================================================
