//! k-mer operations, dispatched over (codec, K, storage) by macro: `K` and the
//! storage type are compile-time parameters of `Kmer`, so every combination
//! that is exercised has to be instantiated here.
use crate::cx::Cx;
use crate::hashrec::feed_of;
use bio_seq::kmer::KmerStorage;
use bio_seq::prelude::*;
use core::marker::PhantomData;
use serde_json::{json, Value};

/// the K values that are instantiated; runtime guard `k * BITS <= storage bits`
pub const KS: [usize; 39] = [
    1, 2, 3, 4, 5, 6, 7, 8, 9, 10, 11, 12, 13, 14, 15, 16, 17, 18, 19, 20, 21, 22, 23, 24, 25, 26,
    27, 28, 29, 30, 31, 32, 33, 42, 63, 64, 65, 127, 128,
];

macro_rules! dispatch_k {
    ($k:expr, $K:ident => $body:expr) => {
        match $k {
            1 => { const $K: usize = 1; $body }
            2 => { const $K: usize = 2; $body }
            3 => { const $K: usize = 3; $body }
            4 => { const $K: usize = 4; $body }
            5 => { const $K: usize = 5; $body }
            6 => { const $K: usize = 6; $body }
            7 => { const $K: usize = 7; $body }
            8 => { const $K: usize = 8; $body }
            9 => { const $K: usize = 9; $body }
            10 => { const $K: usize = 10; $body }
            11 => { const $K: usize = 11; $body }
            12 => { const $K: usize = 12; $body }
            13 => { const $K: usize = 13; $body }
            14 => { const $K: usize = 14; $body }
            15 => { const $K: usize = 15; $body }
            16 => { const $K: usize = 16; $body }
            17 => { const $K: usize = 17; $body }
            18 => { const $K: usize = 18; $body }
            19 => { const $K: usize = 19; $body }
            20 => { const $K: usize = 20; $body }
            21 => { const $K: usize = 21; $body }
            22 => { const $K: usize = 22; $body }
            23 => { const $K: usize = 23; $body }
            24 => { const $K: usize = 24; $body }
            25 => { const $K: usize = 25; $body }
            26 => { const $K: usize = 26; $body }
            27 => { const $K: usize = 27; $body }
            28 => { const $K: usize = 28; $body }
            29 => { const $K: usize = 29; $body }
            30 => { const $K: usize = 30; $body }
            31 => { const $K: usize = 31; $body }
            32 => { const $K: usize = 32; $body }
            33 => { const $K: usize = 33; $body }
            42 => { const $K: usize = 42; $body }
            63 => { const $K: usize = 63; $body }
            64 => { const $K: usize = 64; $body }
            65 => { const $K: usize = 65; $body }
            127 => { const $K: usize = 127; $body }
            128 => { const $K: usize = 128; $body }
            other => panic!("K={other} is not instantiated in the harness"),
        }
    };
}
pub(crate) use dispatch_k;

/// storage types as the harness sees them
pub trait StX: KmerStorage + 'static {
    const NAME: &'static str;
    const NBITS: usize;
    fn to_u128(self) -> u128;
    fn from_u128(x: u128) -> Self;
}
impl StX for usize {
    const NAME: &'static str = "usize";
    const NBITS: usize = 64;
    fn to_u128(self) -> u128 {
        self as u128
    }
    fn from_u128(x: u128) -> Self {
        x as usize
    }
}
impl StX for u64 {
    const NAME: &'static str = "u64";
    const NBITS: usize = 64;
    fn to_u128(self) -> u128 {
        self as u128
    }
    fn from_u128(x: u128) -> Self {
        x as u64
    }
}
impl StX for u128 {
    const NAME: &'static str = "u128";
    const NBITS: usize = 128;
    fn to_u128(self) -> u128 {
        self
    }
    fn from_u128(x: u128) -> Self {
        x
    }
}

/// a type-erased k-mer register: the public storage word plus its type parameters
#[derive(Clone, Copy, Debug, PartialEq, Eq)]
pub struct KVal {
    pub k: usize,
    pub st: usize, // 64 (usize), 65 (u64, logged as 64 with name), 128
    pub word: u128,
}

pub fn st_bits(name: &str) -> usize {
    match name {
        "usize" | "u64" => 64,
        "u128" => 128,
        o => panic!("storage {o}"),
    }
}

pub fn limbs_of(word: u128, nwords: usize) -> Value {
    let mut v = Vec::new();
    for i in 0..(4 * nwords) {
        v.push(((word >> (16 * i)) & 0xffff) as u64);
    }
    json!(v)
}

pub fn word_of_limbs(l: &Value) -> u128 {
    let mut w: u128 = 0;
    for (i, x) in l.as_array().unwrap().iter().enumerate() {
        if i < 8 {
            w |= (x.as_u64().unwrap() as u128) << (16 * i);
        }
    }
    w
}

fn mk<A: Cx, const K: usize, S: StX>(word: u128) -> Kmer<A, K, S> {
    Kmer {
        _p: PhantomData,
        bs: S::from_u128(word),
    }
}

pub fn kview<A: Cx, const K: usize, S: StX>(k: &Kmer<A, K, S>) -> Value {
    json!({
        "disp": k.to_string().into_bytes(),
        "limbs": limbs_of(k.bs.to_u128(), S::NBITS / 64),
    })
}

/// operations available for every storage type
pub enum KReq<'a, A: Cx> {
    View,
    FromSlice(&'a SeqSlice<A>),
    /// `Kmer::unsafe_from_seqslice`: only ever asked for a slice of exactly K symbols
    FromSliceUnchecked(&'a SeqSlice<A>),
    Parse(&'a str),
    RotL(u32),
    RotR(u32),
    PushL(A),
    PushR(A),
    Feed,
    EqK(u128),
    NeK(u128),
    EqSlice(&'a SeqSlice<A>, bool), // by value (false) or by reference (true)
    Serde(&'a str),
}

pub enum KRes {
    V(Value),
    K(Option<u128>), // a k-mer result (None = the conversion was refused)
    B(bool),
    I(i64),
    S(String),
}

fn kgen<A: Cx, const K: usize, S: StX>(word: u128, req: KReq<A>) -> KRes
where
    Kmer<A, K, S>: serde::Serialize + serde::de::DeserializeOwned,
{
    let k: Kmer<A, K, S> = mk(word);
    match req {
        KReq::View => KRes::V(kview(&k)),
        KReq::FromSlice(s) => KRes::K(Kmer::<A, K, S>::try_from(s).ok().map(|x| x.bs.to_u128())),
        KReq::FromSliceUnchecked(s) => {
            assert!(s.len() == K, "harness: unchecked construction needs exactly K symbols");
            KRes::K(Some(Kmer::<A, K, S>::unsafe_from_seqslice(s).bs.to_u128()))
        }
        KReq::Parse(t) => KRes::K(t.parse::<Kmer<A, K, S>>().ok().map(|x| x.bs.to_u128())),
        KReq::RotL(n) => KRes::K(Some(k.rotated_left(n).bs.to_u128())),
        KReq::RotR(n) => KRes::K(Some(k.rotated_right(n).bs.to_u128())),
        KReq::PushL(x) => KRes::K(Some(k.pushl(x).bs.to_u128())),
        KReq::PushR(x) => KRes::K(Some(k.pushr(x).bs.to_u128())),
        KReq::Feed => KRes::S(feed_of(&k)),
        KReq::EqK(o) => {
            let o: Kmer<A, K, S> = mk(o);
            KRes::B(k == o)
        }
        KReq::NeK(o) => {
            let o: Kmer<A, K, S> = mk(o);
            KRes::B(k != o)
        }
        KReq::EqSlice(s, by_ref) => {
            if by_ref {
                let e = k == s;
                let n = k != s;
                KRes::V(json!({"eq": e, "ne": n}))
            } else {
                let e = k == *s;
                let n = k != *s;
                KRes::V(json!({"eq": e, "ne": n}))
            }
        }
        KReq::Serde(fmt) => {
            let back: Kmer<A, K, S> = if fmt == "json" {
                let t = serde_json::to_string(&k).unwrap();
                serde_json::from_str(&t).unwrap()
            } else {
                let b = bincode::serialize(&k).unwrap();
                bincode::deserialize(&b).unwrap()
            };
            KRes::V(json!({"kv": kview(&back), "eq": back == k, "hasheq": feed_of(&back) == feed_of(&k)}))
        }
    }
}

pub fn kcall<A: Cx>(k: usize, st: &str, word: u128, req: KReq<A>) -> KRes {
    let bits = k * A::BITS as usize;
    assert!(k >= 1 && bits <= st_bits(st), "harness: K does not fit the storage");
    match st {
        "usize" => dispatch_k!(k, K => kgen::<A, K, usize>(word, req)),
        "u64" => dispatch_k!(k, K => kgen::<A, K, u64>(word, req)),
        "u128" => dispatch_k!(k, K => kgen::<A, K, u128>(word, req)),
        o => panic!("storage {o}"),
    }
}

/// operations that exist only for the default `usize` storage
pub enum UReq<'a, A: Cx> {
    Deref(&'a mut dyn FnMut(&SeqSlice<A>)),
    ToSeq,
    FromSeq(Seq<A>),
    EqSeq(&'a Seq<A>),
    EqStr(&'a str),
    Rev,
    ToRev,
    ToUsize,
    FromUsize(usize),
}

pub enum URes<A: Cx> {
    Unit,
    Seq(Seq<A>),
    K(Option<u128>),
    V(Value),
}

fn ugen<A: Cx, const K: usize>(word: u128, req: UReq<A>) -> URes<A> {
    let mut k: Kmer<A, K, usize> = mk(word);
    match req {
        UReq::Deref(f) => {
            f(&k);
            URes::Unit
        }
        UReq::ToSeq => URes::Seq(Seq::from(k)),
        UReq::FromSeq(s) => URes::K(Kmer::<A, K>::try_from(s).ok().map(|x| x.bs as u128)),
        UReq::EqSeq(s) => URes::V(json!({"eq": k == *s, "ne": k != *s})),
        UReq::EqStr(t) => URes::V(json!({"eq": k == t, "ne": k != t})),
        UReq::Rev => {
            k.rev();
            URes::K(Some(k.bs as u128))
        }
        UReq::ToRev => URes::K(Some(k.to_rev().bs as u128)),
        UReq::ToUsize => {
            let u: usize = (&k).into();
            URes::K(Some(u as u128))
        }
        UReq::FromUsize(u) => {
            let k2: Kmer<A, K, usize> = Kmer::from(u);
            URes::K(Some(k2.bs as u128))
        }
    }
}

pub fn ucall<A: Cx>(k: usize, word: u128, req: UReq<A>) -> URes<A> {
    assert!(k >= 1 && k * A::BITS as usize <= 64, "harness: K does not fit usize");
    dispatch_k!(k, K => ugen::<A, K>(word, req))
}

/// `Kmer<_, K, u64>` from integers (two `From` impls)
pub fn k64_from<A: Cx>(k: usize, v: u64, via_usize: bool) -> u128 {
    assert!(k >= 1 && k * A::BITS as usize <= 64);
    dispatch_k!(k, K => {
        let x: Kmer<A, K, u64> = if via_usize { Kmer::from(v as usize) } else { Kmer::from(v) };
        x.bs as u128
    })
}

/// complement family: 2-bit DNA on `usize` only
pub fn dna_kop(k: usize, word: u128, op: &str) -> u128 {
    assert!(k >= 1 && k * 2 <= 64);
    dispatch_k!(k, K => {
        let mut x: Kmer<Dna, K, usize> = mk(word);
        match op {
            "comp" => { x.comp(); x.bs as u128 }
            "revcomp" => { x.revcomp(); x.bs as u128 }
            "tocomp" => x.to_comp().bs as u128,
            "torevcomp" => x.to_revcomp().bs as u128,
            o => panic!("dna_kop {o}"),
        }
    })
}

/// `seq.kmers::<K>()` collected: (view of every k-mer)
pub fn kmers_of<A: Cx>(s: &SeqSlice<A>, k: usize, cap: usize) -> (Vec<Value>, bool) {
    assert!(k >= 1 && k * A::BITS as usize <= 64);
    dispatch_k!(k, K => {
        let mut out = Vec::new();
        let mut it = s.kmers::<K>();
        let mut done = false;
        for _ in 0..cap {
            match it.next() {
                Some(x) => out.push(kview(&x)),
                None => { done = true; break; }
            }
        }
        (out, done)
    })
}

/// min / max over `seq.kmers::<K>()`
pub fn kminmax<A: Cx + Ord>(s: &SeqSlice<A>, k: usize, which: &str) -> Option<Value> {
    assert!(k >= 1 && k * A::BITS as usize <= 64);
    dispatch_k!(k, K => {
        let r = match which {
            "min" => s.kmers::<K>().min(),
            "max" => s.kmers::<K>().max(),
            "sortfirst" => { let mut v: Vec<_> = s.kmers::<K>().collect(); v.sort(); v.first().copied() }
            "sortlast" => { let mut v: Vec<_> = s.kmers::<K>().collect(); v.sort(); v.last().copied() }
            o => panic!("kminmax {o}"),
        };
        r.map(|x| kview(&x))
    })
}

/// step-wise k-mer iterator (for the iterator state machine)
pub fn kmer_iter_boxed<A: Cx>(s: &'static SeqSlice<A>, k: usize) -> Box<dyn Iterator<Item = Value>> {
    assert!(k >= 1 && k * A::BITS as usize <= 64);
    dispatch_k!(k, K => Box::new(s.kmers::<K>().map(|x| kview(&x))))
}

/// ordering of two k-mers of one type (codecs that are `Ord`)
fn kcmp_gen<A: Cx + Ord, const K: usize, S: StX + Ord>(a: u128, b: u128) -> i64 {
    let k: Kmer<A, K, S> = mk(a);
    let o: Kmer<A, K, S> = mk(b);
    let lt = k < o;
    let gt = k > o;
    let c = k.cmp(&o) as i64;
    let pc = k.partial_cmp(&o).map(|x| x as i64);
    // Ord, PartialOrd, the operators and == must tell one story
    if pc != Some(c) || lt != (c < 0) || gt != (c > 0) || (k == o) != (c == 0) {
        99
    } else {
        c
    }
}

pub fn kcmp<A: Cx + Ord>(k: usize, st: &str, a: u128, b: u128) -> i64 {
    assert!(k >= 1 && k * A::BITS as usize <= st_bits(st), "harness: K does not fit the storage");
    match st {
        "usize" => dispatch_k!(k, K => kcmp_gen::<A, K, usize>(a, b)),
        "u64" => dispatch_k!(k, K => kcmp_gen::<A, K, u64>(a, b)),
        "u128" => dispatch_k!(k, K => kcmp_gen::<A, K, u128>(a, b)),
        o => panic!("storage {o}"),
    }
}

pub fn seqcmp<A: Cx + Ord>(a: &Seq<A>, b: &Seq<A>) -> i64 {
    let c = a.cmp(b) as i64;
    let pc = a.partial_cmp(b).map(|x| x as i64);
    if pc != Some(c) || (a < b) != (c < 0) || (a > b) != (c > 0) || (a == b) != (c == 0) {
        99
    } else {
        c
    }
}

/// a partially advanced k-mer iterator handed to a consumer (internal iteration included)
pub fn kmers_mix<A: Cx>(s: &SeqSlice<A>, k: usize, adv: usize, consumer: &str, cap: usize) -> Value {
    assert!(k >= 1 && k * A::BITS as usize <= 64);
    dispatch_k!(k, K => {
        let mut it = s.kmers::<K>();
        for _ in 0..adv {
            if it.next().is_none() {
                return match consumer {
                    "count" | "overshoot_count" => json!({"count": 0}),
                    "last" => json!({"some": false}),
                    _ => json!({"items": []}),
                };
            }
        }
        let rest: Vec<Value> = match consumer {
            "overshoot_count" => { let jumped = it.nth(cap + 64).is_some(); return json!({"count": it.count() + usize::from(jumped)}); }
            "overshoot_next" => { let mut v = Vec::new(); if let Some(x) = it.nth(cap + 7) { v.push(kview(&x)); } for _ in 0..4 { if let Some(x) = it.next() { v.push(kview(&x)); } } v }
            "next" => { let mut v = Vec::new(); for _ in 0..cap { match it.next() { Some(x) => v.push(kview(&x)), None => break } } v }
            "fold" => it.fold(Vec::new(), |mut v, x| { v.push(kview(&x)); v }),
            "for_each" => { let mut v = Vec::new(); it.for_each(|x| v.push(kview(&x))); v }
            "collect" => it.map(|x| kview(&x)).collect(),
            "count" => return json!({"count": it.count()}),
            "last" => return match it.last() { Some(x) => json!({"some": true, "item": kview(&x)}), None => json!({"some": false}) },
            "skip1" => it.skip(1).map(|x| kview(&x)).collect(),
            "step2" => it.step_by(2).map(|x| kview(&x)).collect(),
            "peekable" => { let mut p = it.peekable(); let _ = p.peek(); p.map(|x| kview(&x)).collect() }
            "enumerate" => it.enumerate().map(|(_, x)| kview(&x)).collect(),
            "nth1" => { let mut v = Vec::new(); while let Some(x) = it.nth(1) { v.push(kview(&x)); if v.len() > cap { break; } } v }
            "take3" => it.take(3).map(|x| kview(&x)).collect(),
            "zip" => it.zip(0..).map(|(x, _)| kview(&x)).collect(),
            o => panic!("harness: consumer {o}"),
        };
        json!({"items": rest})
    })
}
