------------------------------- MODULE MC_C07 -------------------------------
(* C07: reverse / complement / reverse-complement are exact and involutive;  *)
(* the bit-level mechanisms refine them for every symbol width.              *)
EXTENDS MCBase
CONSTANTS MaxLen

Cods == {"degen", "dna", "iupac", "mdna", "miupac", "amino", "text"}
Three(c) == {Items(c)[1].code, Items(c)[2].code, Items(c)[Len(Items(c))].code}

Checked(A, P) == A /\ Assert(P, "a reverse/complement law fails on the specification")

RevLaw(c, s) ==
    /\ Len(RevSeq(s)) = Len(s)
    /\ \A i \in 1 .. Len(s) : RevSeq(s)[i] = s[Len(s) + 1 - i]
    /\ RevSeq(RevSeq(s)) = s
    /\ Unpack(M_Rev(Pack(s, W(c)), W(c)), W(c)) = RevSeq(s)            \* mechanism refines meaning

CompLaw(c, s) ==
    HasComp(c) =>
        /\ \A i \in 1 .. Len(s) : CompSeq(c, s)[i] = Comp(c, s[i])
        /\ CompSeq(c, CompSeq(c, s)) = s
        /\ RevCompSeq(c, s) = CompSeq(c, RevSeq(s))
        /\ RevCompSeq(c, s) = RevSeq(CompSeq(c, s))
        /\ RevCompSeq(c, RevCompSeq(c, s)) = s
        /\ LET f(p) == Comp(c, Decode(c, p))
           IN  Unpack(M_MapChunks(Pack(s, W(c)), W(c), f), W(c)) = CompSeq(c, s)

Ops(c) == IF HasComp(c) THEN {"rev", "comp", "revcomp"} ELSE {"rev"}

MCNext ==
    \/ \E c \in Cods : \E s \in SeqsUpTo(Three(c), MaxLen) :
          Checked(FromSyms(0, c, s), RevLaw(c, s) /\ CompLaw(c, s))
    \/ /\ reg[0].c # "none"
       /\ \E t \in Ops(reg[0].c) :
             \/ \E src \in Sources1(0) :
                   Checked(Copying(1, src, t),
                           /\ reg'[0] = reg[0]                                      \* receiver untouched
                           /\ reg'[1].s = Transform(reg[0].c, Resolve(src).s, t))
             \/ Checked(InPlace(0, t), reg'[0].s = Transform(reg[0].c, reg[0].s, t))
MCSpec == Init /\ [][MCNext]_vars
NoCopy == reg[1].c = "none"
=============================================================================
