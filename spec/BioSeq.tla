------------------------------- MODULE BioSeq -------------------------------
(***************************************************************************)
(* THE state machine of the library, one action per public entry point.    *)
(*                                                                         *)
(*   reg   owned-sequence registers: a codec and a list of canonical codes *)
(*   kreg  k-mer registers: codec, K, storage width, K raw bit patterns    *)
(*   treg  codon-table registers: the map and the incremental inverse      *)
(*   itr   iterator registers: the items still owed and a position         *)
(*   feed  ghost: the hasher input learned so far for each content         *)
(*   out   the observable result of the action just taken                  *)
(*                                                                         *)
(* Every action that takes a &SeqSlice in Rust takes a SOURCE here: a      *)
(* register (sequence or k-mer) plus a path of range steps, so "argument   *)
(* slices at every offset, re-sliced to any depth" is part of every        *)
(* action.  A source whose path leaves the sequence makes the call panic:  *)
(* the state is unchanged and out = Panic.                                 *)
(*                                                                         *)
(* The module defines actions and properties only; bounded Next relations  *)
(* live in the MC_* / Gen_* modules, the trace-driven one in Trace.tla.    *)
(***************************************************************************)
EXTENDS Derive, Giant, TLC

CONSTANTS NR,       \* number of sequence registers
          NK,       \* number of k-mer registers
          NT,       \* number of codon-table registers
          NI        \* number of iterator registers

VARIABLES reg, kreg, treg, itr, feed, out
vars == <<reg, kreg, treg, itr, feed, out>>

RegIds == 0 .. (NR - 1)
KRegIds == 0 .. (NK - 1)
TRegIds == 0 .. (NT - 1)
IRegIds == 0 .. (NI - 1)

Nil == [c |-> "none", s |-> <<>>]
KNil == [c |-> "none", k |-> 0, st |-> 0, p |-> <<>>]
TNil == [c |-> "none", m |-> <<>>, pending |-> {}, inv |-> <<>>]
INil == [items |-> <<>>, pos |-> 0, live |-> FALSE]

Panic == [panic |-> TRUE]

Init ==
    /\ reg = [r \in RegIds |-> Nil]
    /\ kreg = [r \in KRegIds |-> KNil]
    /\ treg = [r \in TRegIds |-> TNil]
    /\ itr = [r \in IRegIds |-> INil]
    /\ feed = <<>>
    /\ out = [init |-> TRUE]

(***************************************************************************)
(* Sources                                                                 *)
(***************************************************************************)
KSyms(kv) == DecodeSeq(kv.c, kv.p)

\* src = [base |-> "reg" | "kmer", r |-> id, path |-> <<steps>>]
Resolve(src) ==
    LET base == IF src.base = "reg" THEN reg[src.r]
                ELSE [c |-> kreg[src.r].c, s |-> KSyms(kreg[src.r])]
        pr == PathApply(base.s, src.path)
    IN  [ok |-> pr.ok, c |-> base.c, s |-> pr.s]

WholeReg(r) == [base |-> "reg", r |-> r, path |-> <<>>]

KView(kv) ==
    [disp |-> Display(kv.c, KSyms(kv)),
     limbs |-> Limbs(Pack(kv.p, W(kv.c)), kv.st \div 64)]

\* every k-mer register is in canonical form: K patterns, each below 2^w,
\* so the storage word is below 2^(K*w) (C09)
KCanonical(kv) ==
    kv.c # "none" =>
        /\ Len(kv.p) = kv.k /\ kv.k >= 1 /\ kv.k * W(kv.c) <= kv.st
        /\ \A i \in 1 .. kv.k : kv.p[i] < 2 ^ W(kv.c) /\ Decode(kv.c, kv.p[i]) # NoSym

(***************************************************************************)
(* Frame helpers                                                           *)
(***************************************************************************)
OnlyOut == UNCHANGED <<reg, kreg, treg, itr, feed>>
OnlyReg == UNCHANGED <<kreg, treg, itr, feed>>
OnlyKReg == UNCHANGED <<reg, treg, itr, feed>>

\* store a new value in sequence register d and report what a reader sees
Store(d, c, s) ==
    /\ reg' = [reg EXCEPT ![d] = [c |-> c, s |-> s]]
    /\ out' = View(c, s)
    /\ OnlyReg

Fail(o) == out' = o /\ UNCHANGED <<reg, kreg, treg, itr, feed>>

(***************************************************************************)
(* Constructors                                                            *)
(***************************************************************************)
\* all seven text entry points share this meaning (C01)
Parse(d, c, bytes) ==
    LET r == ParseRes(c, bytes)
    IN  IF r.ok
        THEN /\ reg' = [reg EXCEPT ![d] = [c |-> c, s |-> r.syms]]
             /\ out' = [ok |-> TRUE, v |-> View(c, r.syms)]
             /\ OnlyReg
        ELSE Fail([ok |-> FALSE, byte |-> r.byte])

Trim(d, c, bytes) ==
    LET r == TrimRes(c, bytes)
    IN  IF r.ok
        THEN /\ reg' = [reg EXCEPT ![d] = [c |-> c, s |-> r.syms]]
             /\ out' = [ok |-> TRUE, v |-> View(c, r.syms)]
             /\ OnlyReg
        ELSE Fail([ok |-> FALSE, byte |-> r.byte])

FromSyms(d, c, syms) == Store(d, c, syms)
NewSeq(d, c) == Store(d, c, <<>>)
Clone(d, r) == Store(d, reg[r].c, reg[r].s)

ToOwned(d, src) ==
    LET x == Resolve(src)
    IN  IF x.ok THEN Store(d, x.c, x.s) ELSE Fail(Panic)

\* a natural number given as four 16-bit limbs (TLC integers are 32 bit) that is >= 2^31,
\* i.e. beyond every length and every image that occurs here
IsFar(l) == Len(l) = 4 /\ (l[3] > 0 \/ l[4] > 0 \/ l[2] >= 32768)

\* rebuild from a machine-word image given as 16-bit limbs (C04)
FromRaw(d, c, n, limbs) ==
    LET bits == BitsOfLimbs(limbs)
    IN  IF n * W(c) <= Len(bits)
        THEN LET s == DecodeSeq(c, Unpack(SubSeq(bits, 1, n * W(c)), W(c)))
             IN  /\ reg' = [reg EXCEPT ![d] = [c |-> c, s |-> s]]
                 /\ out' = [ok |-> TRUE, v |-> View(c, s)]
                 /\ OnlyReg
        ELSE Fail([ok |-> FALSE])

\* a count far beyond any image (given as limbs, see IsFar): the image never holds that many symbols
FromRawFar(n) == IsFar(n) /\ Fail([ok |-> FALSE])

\* serialize + deserialize is the identity on content (C18)
SerdeRT(d, r) == Store(d, reg[r].c, reg[r].s)

(***************************************************************************)
(* Edits (C06)                                                             *)
(***************************************************************************)
Push(d, x) == Store(d, reg[d].c, Append(reg[d].s, x))
Extend(d, xs) == Store(d, reg[d].c, reg[d].s \o xs)
Clear(d) == Store(d, reg[d].c, <<>>)
Truncate(d, n) == Store(d, reg[d].c, Trunc(reg[d].s, n))

AppendSl(d, src) ==
    LET x == Resolve(src)
    IN  IF x.ok THEN Store(d, reg[d].c, reg[d].s \o x.s) ELSE Fail(Panic)
PrependSl(d, src) ==
    LET x == Resolve(src)
    IN  IF x.ok THEN Store(d, reg[d].c, x.s \o reg[d].s) ELSE Fail(Panic)
InsertSl(d, i, src) ==
    LET x == Resolve(src)
    IN  IF x.ok /\ i <= Len(reg[d].s) THEN Store(d, reg[d].c, Ins(reg[d].s, i, x.s)) ELSE Fail(Panic)

\* remove(range): st is a range step; only in-bounds ranges are part of the property
RemoveRange(d, st) ==
    LET n == Len(reg[d].s)
    IN  /\ StepInBounds(st, n)
        /\ Store(d, reg[d].c, Rem(reg[d].s, Lo(st, n), Hi(st, n)))

(***************************************************************************)
(* Reverse / complement / mask (C07, C20): in place and copying            *)
(***************************************************************************)
Transform(c, s, op) ==
    CASE op = "rev" -> RevSeq(s)
      [] op = "comp" -> CompSeq(c, s)
      [] op = "revcomp" -> RevCompSeq(c, s)
      [] op = "mask" -> MaskSeq(c, s)
      [] op = "unmask" -> UnmaskSeq(c, s)

TransformOK(c, op) ==
    CASE op = "rev" -> TRUE
      [] op \in {"comp", "revcomp"} -> HasComp(c)
      [] op \in {"mask", "unmask"} -> HasMask(c)

InPlace(d, op) ==
    /\ TransformOK(reg[d].c, op)
    /\ Store(d, reg[d].c, Transform(reg[d].c, reg[d].s, op))

Copying(d, src, op) ==
    LET x == Resolve(src)
    IN  IF x.ok THEN TransformOK(x.c, op) /\ Store(d, x.c, Transform(x.c, x.s, op))
        ELSE Fail(Panic)

(***************************************************************************)
(* IUPAC set algebra (C12)                                                 *)
(***************************************************************************)
BitOp(d, sx, sy, op) ==
    LET x == Resolve(sx)
        y == Resolve(sy)
    IN  IF x.ok /\ y.ok
        THEN /\ x.c = "iupac" /\ y.c = "iupac" /\ Len(x.s) = Len(y.s)
             /\ Store(d, "iupac", IF op = "or" THEN OrSeq(x.s, y.s) ELSE AndSeq(x.s, y.s))
        ELSE Fail(Panic)

ContainsSl(sx, sy) ==
    LET x == Resolve(sx)
        y == Resolve(sy)
    IN  /\ out' = IF x.ok /\ y.ok THEN [res |-> ContainsSeq(x.s, y.s)] ELSE Panic
        /\ OnlyOut

(***************************************************************************)
(* Observers (C03): the state does not change; out is a function of it     *)
(***************************************************************************)
GetRes(s, i) == IF i < Len(s) THEN s[i + 1] ELSE -1      \* Option: None = -1
NthRes(s, i) == IF i < Len(s) THEN s[i + 1] ELSE -2      \* indexing: panic = -2

\* gets / nths: sequences of probed positions
Obs(src, gets, nths) ==
    LET x == Resolve(src)
    IN  /\ out' = IF x.ok
                  THEN [v |-> View(x.c, x.s),
                        empty |-> (Len(x.s) = 0),
                        get |-> [j \in 1 .. Len(gets) |-> GetRes(x.s, gets[j])],
                        nth |-> [j \in 1 .. Len(nths) |-> NthRes(x.s, nths[j])]]
                  ELSE Panic
        /\ OnlyOut

\* Positions far beyond any sequence (up to usize::MAX), given as four 16-bit limbs because TLC
\* integers are 32 bit: "positional access beyond the end never returns a symbol" holds for EVERY
\* such position -- also for those whose bit offset would wrap around the address space.
\* how: "get" (optional accessor), "nth" / "idx" (indexing forms), or a range form whose bound(s)
\* a / b are given as limbs; the bound that decides is far.
FarDecides(how, a, b) ==
    CASE how \in {"get", "nth", "idx", "rf"} -> IsFar(a)
      [] how \in {"r", "ri", "rt", "rti"} -> IsFar(b)
Far(src, how, a, b) ==
    /\ Resolve(src).ok /\ FarDecides(how, a, b)
    /\ out' = IF how = "get" THEN [res |-> -1] ELSE Panic
    /\ OnlyOut

\* every way of turning a sequence into text gives its display characters (C01)
ToText(src) ==
    LET x == Resolve(src)
    IN  /\ out' = IF x.ok THEN [bytes |-> Display(x.c, x.s)] ELSE Panic
        /\ OnlyOut

(***************************************************************************)
(* Equality, hashing, ordering (C02, C10) on resolved CONTENT              *)
(* An operand is [c, s] (a sequence value in any representation) or        *)
(* [str |-> bytes] (display text).                                         *)
(***************************************************************************)
StrEq(c, s, bytes) ==
    /\ Len(bytes) = Len(s)
    /\ \A i \in 1 .. Len(s) : Char(c, s[i]) = bytes[i]

EqContent(a, b) ==
    IF "str" \in DOMAIN b THEN StrEq(a.c, a.s, b.str)
    ELSE a.c = b.c /\ a.s = b.s

Eq(a, b) ==
    /\ out' = [eq |-> EqContent(a, b), ne |-> ~EqContent(a, b)]
    /\ OnlyOut

\* the hasher input is a function of (codec, content) and nothing else:
\* the first sighting binds it, every later one -- in whatever
\* representation -- must reproduce it
HashObs(a, f) ==
    LET key == <<a.c, a.s>>
    IN  /\ IF key \in DOMAIN feed
           THEN f = feed[key] /\ UNCHANGED feed
           ELSE feed' = [k \in (DOMAIN feed) \cup {key} |-> IF k = key THEN f ELSE feed[k]]
        /\ out' = [feed |-> f]
        /\ UNCHANGED <<reg, kreg, treg, itr>>

\* map keyed by owned sequences, probed with a borrowed slice: index of the
\* (last inserted) key with equal content, or -1
MapGet(keys, q) ==
    LET hits == {i \in 1 .. Len(keys) : keys[i] = q}
    IN  /\ out' = [res |-> IF hits = {} THEN -1 ELSE Max(hits) - 1]
        /\ OnlyOut

Cmp(a, b) ==
    /\ Len(a.s) = Len(b.s)
    /\ out' = [res |-> Colex(a.s, b.s)]
    /\ OnlyOut

(***************************************************************************)
(* Integers and raw images (C04)                                           *)
(***************************************************************************)
\* fallible = TRUE: Result-returning conversion; FALSE: the infallible forms.
\* width: bits of the target integer (64 for usize, 8 for u8).  A sequence that
\* does not fit is refused -- an error, or no value at all -- never truncated.
ToIntRes(src, fallible, width) ==
    LET x == Resolve(src)
        bits == Pack(x.s, W(x.c))
    IN  IF ~x.ok THEN Panic
        ELSE IF Len(bits) <= width THEN [ok |-> TRUE, limbs |-> Limbs(bits, 1)]
        ELSE IF Len(bits) <= 64 THEN [free |-> TRUE]     \* fits a machine word but not the 8-bit target: not constrained
        ELSE IF fallible THEN [ok |-> FALSE]
        ELSE Panic

ToInt(src, fallible, width, observed) ==
    LET x == Resolve(src)
        e == ToIntRes(src, fallible, width)
    IN  /\ x.ok => Len(x.s) > 0
        /\ "free" \notin DOMAIN e => observed = e
        /\ out' = observed
        /\ OnlyOut

\* the by-value conversion consumes the register's own value (left empty afterwards)
ToIntTake(r) ==
    LET bits == Pack(reg[r].s, W(reg[r].c))
    IN  /\ Len(reg[r].s) > 0
        /\ out' = IF Len(bits) <= 64 THEN [ok |-> TRUE, limbs |-> Limbs(bits, 1)] ELSE Panic
        /\ reg' = [reg EXCEPT ![r] = [c |-> reg[r].c, s |-> <<>>]]
        /\ OnlyReg

\* the exported image: only its first len*w bits are constrained
IntoRawOK(r, limbs) ==
    LET bits == Pack(reg[r].s, W(reg[r].c))
    IN  /\ Len(limbs) >= 4 * WordsFor(Len(bits))
        /\ SubSeq(BitsOfLimbs(limbs), 1, Len(bits)) = bits

IntoRaw(r, limbs) ==
    /\ out' = [ok |-> IntoRawOK(r, limbs)]
    /\ OnlyOut

(***************************************************************************)
(* k-mers (C08, C09)                                                       *)
(***************************************************************************)
KStore(kd, kv) ==
    /\ kreg' = [kreg EXCEPT ![kd] = kv]
    /\ out' = [ok |-> TRUE, kv |-> KView(kv)]
    /\ OnlyKReg

KFrom(kd, src, K, st) ==
    LET x == Resolve(src)
    IN  IF ~x.ok THEN Fail(Panic)
        ELSE IF Len(x.s) = K
        THEN KStore(kd, [c |-> x.c, k |-> K, st |-> st, p |-> x.s])
        ELSE Fail([ok |-> FALSE])

KParse(kd, c, K, st, bytes) ==
    LET r == ParseRes(c, bytes)
    IN  IF Len(bytes) = K /\ r.ok
        THEN KStore(kd, [c |-> c, k |-> K, st |-> st, p |-> r.syms])
        ELSE Fail([ok |-> FALSE])

\* an integer below 2^(K*w), given as limbs, read as K raw patterns
KFromInt(kd, c, K, st, limbs) ==
    LET p == Unpack(SubSeq(BitsOfLimbs(limbs), 1, K * W(c)), W(c))
    IN  /\ \A i \in 1 .. K : Decode(c, p[i]) # NoSym
        /\ KStore(kd, [c |-> c, k |-> K, st |-> st, p |-> p])

\* n is given as <<hi, lo>> 16-bit halves of a u32
Mod32(n, K) == (((n[1] % K) * (65536 % K)) + n[2]) % K

KApply(kv, op, arg) ==
    CASE op = "rotl" -> RotL(kv.p, Mod32(arg, kv.k))
      [] op = "rotr" -> RotR(kv.p, Mod32(arg, kv.k))
      [] op = "pushl" -> PushL(kv.p, arg)
      [] op = "pushr" -> PushR(kv.p, arg)
      [] op = "rev" -> RevSeq(kv.p)
      [] op = "comp" -> CompSeq(kv.c, kv.p)
      [] op = "revcomp" -> RevCompSeq(kv.c, kv.p)

KOp(kd, ks, op, arg) ==
    /\ kreg[ks].c # "none"
    /\ op \in {"comp", "revcomp"} => kreg[ks].c = "dna"
    /\ KStore(kd, [kreg[ks] EXCEPT !.p = KApply(kreg[ks], op, arg)])

KObs(ks) ==
    /\ out' = [kv |-> KView(kreg[ks]), len |-> kreg[ks].k]
    /\ OnlyOut

\* Seq::from(kmer)
KToSeq(d, ks) == Store(d, kreg[ks].c, KSyms(kreg[ks]))

\* all K-mers of a slice, as the k-mer iterator yields them (storage st)
KmersOf(x, K, st) ==
    [i \in 1 .. NWindows(Len(x.s), K) |->
        KView([c |-> x.c, k |-> K, st |-> st, p |-> SubSeq(x.s, i, i + K - 1)])]

Kmers(src, K) ==
    LET x == Resolve(src)
    IN  /\ out' = IF x.ok THEN [items |-> KmersOf(x, K, 64)] ELSE Panic
        /\ OnlyOut

\* colexicographic minimiser / maximiser of the K-mers of a slice
KMinMax(src, K, which) ==
    LET x == Resolve(src)
        ws == Windows(x.s, K)
    IN  /\ out' = IF ~x.ok THEN Panic
                  ELSE IF Len(ws) = 0 THEN [some |-> FALSE]
                  ELSE [some |-> TRUE,
                        kv |-> KView([c |-> x.c, k |-> K, st |-> 64,
                                      p |-> IF which = "min" THEN ColexMin(ws) ELSE ColexMax(ws)])]
        /\ OnlyOut

(***************************************************************************)
(* Iterators (C11): creation fixes the items owed; each Next hands out     *)
(* exactly the next one, then reports exhaustion                           *)
(***************************************************************************)
ItItems(kind, x, y, w) ==
    CASE kind \in {"iter", "intoiter"} -> x.s
      [] kind = "rev" -> RevSeq(x.s)
      [] kind = "chain" -> x.s \o y.s
      [] kind \in {"windows", "windowsvec"} -> [i \in 1 .. NWindows(Len(x.s), w) |-> View(x.c, Windows(x.s, w)[i])]
      [] kind \in {"chunks", "chunksvec"} -> [i \in 1 .. (Len(x.s) \div w) |-> View(x.c, Chunks(x.s, w)[i])]
      [] kind = "kmers" -> KmersOf(x, w, 64)

ItNew(i, kind, sx, sy, w) ==
    LET x == Resolve(sx)
        y == IF kind = "chain" THEN Resolve(sy) ELSE x
    IN  /\ kind \in {"windows", "chunks", "kmers"} => w >= 1
        /\ IF x.ok /\ y.ok
           THEN /\ itr' = [itr EXCEPT ![i] = [items |-> ItItems(kind, x, y, w), pos |-> 0, live |-> TRUE]]
                /\ out' = [ok |-> TRUE]
                /\ UNCHANGED <<reg, kreg, treg, feed>>
           ELSE Fail(Panic)

ItDone(i) == itr[i].live /\ itr[i].pos > Len(itr[i].items)

\* calling next() again after None is outside the property and never done
ItNext(i) ==
    /\ itr[i].live /\ ~ItDone(i)
    /\ itr' = [itr EXCEPT ![i].pos = @ + 1]
    /\ out' = IF itr[i].pos < Len(itr[i].items)
              THEN [some |-> TRUE, item |-> itr[i].items[itr[i].pos + 1]]
              ELSE [some |-> FALSE]
    /\ UNCHANGED <<reg, kreg, treg, feed>>

\* one event for a whole run: creation followed by next() until None
ItRun(kind, sx, sy, w) ==
    LET x == Resolve(sx)
        y == IF kind = "chain" THEN Resolve(sy) ELSE x
    IN  /\ kind \in {"windows", "chunks", "kmers"} => w >= 1
        /\ out' = IF x.ok /\ y.ok
                  THEN [items |-> ItItems(kind, x, y, w), done |-> TRUE]
                  ELSE Panic
        /\ OnlyOut

\* a partially advanced iterator handed to a consumer -- next() loop, or one of the adaptors /
\* consumers that iterate internally (fold, for_each, count, last, skip, step_by, nth, ...): the
\* items already handed out are never seen again, the others exactly once, in order
ItMix(kind, sx, w, adv, consumer) ==
    LET x == Resolve(sx)
        all == ItItems(kind, x, x, w)
        rest == SubSeq(all, Min2(adv, Len(all)) + 1, Len(all))
        n == Len(rest)
    IN  /\ kind \in {"windows", "chunks", "kmers"} => w >= 1
        /\ out' = IF ~x.ok THEN Panic
                  ELSE CASE consumer \in {"next", "fold", "for_each", "collect", "peekable", "enumerate", "zip"} -> [items |-> rest]
                         [] consumer = "count" -> [count |-> n]
                         [] consumer = "overshoot_count" -> [count |-> 0]       \* a jump past the end yields nothing, ever
                         [] consumer = "overshoot_next" -> [items |-> <<>>]
                         [] consumer = "last" -> IF n = 0 THEN [some |-> FALSE] ELSE [some |-> TRUE, item |-> rest[n]]
                         [] consumer = "skip1" -> [items |-> SubSeq(rest, 2, n)]
                         [] consumer = "step2" -> [items |-> [i \in 1 .. ((n + 1) \div 2) |-> rest[2 * i - 1]]]
                         [] consumer = "nth1" -> [items |-> [i \in 1 .. (n \div 2) |-> rest[2 * i]]]
                         [] consumer = "take3" -> [items |-> SubSeq(rest, 1, Min2(3, n))]
        /\ OnlyOut

(***************************************************************************)
(* Conversion between codecs (C19)                                         *)
(***************************************************************************)
Convert(src, c2) ==
    LET x == Resolve(src)
    IN  /\ x.ok => x.c = "dna"
        /\ out' = IF x.ok THEN View(c2, [i \in 1 .. Len(x.s) |-> DnaTo(c2, x.s[i])]) ELSE Panic
        /\ OnlyOut

TextBaseToDna(byte) ==
    /\ out' = IF TextToDna(byte) # NoSym THEN [ok |-> TRUE, code |-> TextToDna(byte)]
              ELSE [ok |-> FALSE]
    /\ OnlyOut

(***************************************************************************)
(* Translation (C13, C14)                                                  *)
(***************************************************************************)
\* standard table on a DNA slice.  The property speaks about three-base codons only: what a
\* wrong-length argument does (today: a panic) is not constrained, any observation is allowed
ToAminoRes(src) ==
    LET x == Resolve(src)
    IN  IF ~x.ok THEN Panic
        ELSE IF Len(x.s) = 3 THEN [ok |-> TRUE, aa |-> DnaToAmino(x.s)]
        ELSE [free |-> TRUE]

ToAmino(src, observed) ==
    LET x == Resolve(src)
        e == ToAminoRes(src)
    IN  /\ x.ok => x.c = "dna"
        /\ "free" \notin DOMAIN e => observed = e
        /\ out' = observed
        /\ OnlyOut

\* ambiguous codons: kind is ok / ambiguous / invalid; gap-containing codons
\* are only required not to panic ("free")
TryToAminoRes(src) ==
    LET x == Resolve(src)
    IN  IF x.ok THEN IupacToAmino(x.s) ELSE [k |-> "panic"]

\* the abstract action: any observation is allowed for a gap-containing codon
TryToAmino(src, observed) ==
    LET e == TryToAminoRes(src)
    IN  /\ e.k # "free" => observed = e
        /\ out' = observed
        /\ OnlyOut

TryToCodon(aa) ==
    /\ out' = AminoToIupac(aa)
    /\ OnlyOut

(***************************************************************************)
(* Custom codon tables (C15).  Construction is TableNew followed by one    *)
(* TableFold per entry IN ANY ORDER (the hash map's iteration order); the  *)
(* inverse map must not depend on that order.                              *)
(***************************************************************************)
TableNew(t, c, entries) ==
    LET m == TableMap(entries)
    IN  /\ treg' = [treg EXCEPT ![t] = [c |-> c, m |-> m, pending |-> DOMAIN m, inv |-> <<>>]]
        /\ out' = [ok |-> TRUE]
        /\ UNCHANGED <<reg, kreg, itr, feed>>

\* inv : amino -> [some |-> BOOLEAN, codon]; second sighting erases the codon
TableFold(t, key) ==
    LET tb == treg[t]
        aa == tb.m[key]
        entry == IF aa \in DOMAIN tb.inv THEN [some |-> FALSE, codon |-> <<>>]
                 ELSE [some |-> TRUE, codon |-> key]
    IN  /\ key \in tb.pending
        /\ treg' = [treg EXCEPT ![t].pending = @ \ {key},
                                ![t].inv = [a \in (DOMAIN tb.inv) \cup {aa} |->
                                               IF a = aa THEN entry ELSE tb.inv[a]]]
        /\ out' = [ok |-> TRUE]
        /\ UNCHANGED <<reg, kreg, itr, feed>>

TableBuilt(t) == treg[t].c # "none" /\ treg[t].pending = {}

\* what the folded inverse answers
InvLookup(tb, aa) ==
    IF aa \notin DOMAIN tb.inv THEN [k |-> "invalidamino"]
    ELSE IF tb.inv[aa].some THEN [k |-> "ok", codon |-> tb.inv[aa].codon]
    ELSE [k |-> "ambiguous"]

TableAmino(t, src) ==
    LET x == Resolve(src)
    IN  /\ out' = IF x.ok THEN TableToAmino(treg[t].m, x.s) ELSE Panic
        /\ OnlyOut

TableCodon(t, aa) ==
    /\ out' = TableToCodon(treg[t].m, aa)
    /\ OnlyOut

(***************************************************************************)
(* Programs (C16, C17): what a compiled literal / a derived codec shows,   *)
(* and whether a program may compile at all                                *)
(***************************************************************************)
\* a literal inside a program that compiled: its value, and that it equals runtime parsing
LitProg(macro, bytes) ==
    /\ LitCompiles(macro, bytes)
    /\ out' = [v |-> View(LitCodec(macro), LitValue(macro, bytes)),
               eqparse |-> TRUE, hasheq |-> TRUE]
    /\ OnlyOut

\* kmer!("...") / kmer!("...", storage): a DNA k-mer with the literal's symbols
KmerLit(bytes, st) ==
    /\ LitCompiles("dna", bytes) /\ Len(bytes) >= 1 /\ 2 * Len(bytes) <= st
    /\ out' = [kv |-> KView([c |-> "dna", k |-> Len(bytes), st |-> st, p |-> LitValue("dna", bytes)]),
               eqparse |-> TRUE, hasheq |-> TRUE]
    /\ OnlyOut

\* does a program whose only questionable item is this literal compile?
LitVerdict(macro, bytes) ==
    /\ out' = [compiled |-> LitCompiles(macro, bytes)]
    /\ OnlyOut

DeriveProg(decl) ==
    /\ DeclWellFormed(decl)
    /\ out' = DeriveObs(decl)
    /\ OnlyOut

\* malformed: "none" (well formed), or the reason it cannot be honoured
DeriveVerdict(decl, malformed) ==
    /\ out' = [compiled |-> (malformed = "none" /\ DeclWellFormed(decl))]
    /\ OnlyOut

(***************************************************************************)
(* Sequences longer than 2^32 bits (Giant.tla).  The sequence is virtual:  *)
(* these actions are stateless, `out` is a function of the request alone.  *)
(* Edits act on an owned copy, which is observed and dropped.              *)
(***************************************************************************)
GObs(c, path, probes, how) == out' = GObsRes(c, path, probes, how) /\ OnlyOut
GViewA(c, path) == out' = GViewRes(c, path) /\ OnlyOut
GIt(c, path, kind, w, skip, take) ==
    /\ kind \in {"windows", "chunks"} => w >= 1
    /\ out' = GItRes(c, path, kind, w, skip, take)
    /\ OnlyOut
GEdit(c, e, probes) == out' = GEditRes(c, e, probes) /\ OnlyOut
GInt(c, path) ==
    LET p == GPath(c, path)
    IN  /\ p.ok => p.len > 0
        /\ out' = IF ~p.ok THEN Panic
                  ELSE IF p.len > 64 \div W(c) THEN [ok |-> FALSE]      \* longer than a machine word: refused
                  ELSE GIntRes(c, path)
        /\ OnlyOut
GEq(c, pa, pb) == out' = GEqRes(c, pa, pb) /\ OnlyOut
GCopy(c, path, t) ==
    LET p == GPath(c, path)
    IN  /\ t # "toowned" => TransformOK(c, t)
        /\ out' = IF ~p.ok THEN Panic
                  ELSE IF t = "toowned" THEN View(c, GSyms(c, p.off, p.len))
                  ELSE View(c, Transform(c, GSyms(c, p.off, p.len), t))
        /\ OnlyOut
GKmer(c, path, K) ==
    LET p == GPath(c, path)
    IN  /\ out' = IF ~p.ok THEN Panic
                  ELSE IF p.len # K THEN [ok |-> FALSE]
                  ELSE [ok |-> TRUE, kv |-> KView([c |-> c, k |-> K, st |-> 64, p |-> GSyms(c, p.off, p.len)])]
        /\ OnlyOut

(***************************************************************************)
(* The codec tables as an action (C05): everything one cell of a codec's   *)
(* tables answers for byte b -- as a bit pattern, as ASCII input, and (if  *)
(* b is the canonical code of a symbol) the symbol's character, code,      *)
(* complement and mask.  -3 = not specified / not applicable.              *)
(***************************************************************************)
CellExpected(c, b) ==
    LET d == Decode(c, b)
        a == FromAscii(c, b)
        isSym == c # "text" /\ b \in CodesOf(c)
        isTextSym == c = "text"
    IN  [tfb |-> d,                                   \* try_from_bits
         ufb |-> IF d # NoSym THEN d ELSE -3,          \* unchecked decoder: only where the fallible one succeeds
         tfa |-> a,
         ufa |-> IF a # NoSym THEN a ELSE -3,
         ch |-> IF isSym \/ isTextSym THEN Char(c, b) ELSE -3,       \* to_char of the symbol with this code
         bits |-> IF isSym \/ isTextSym THEN b ELSE -3,
         comp |-> IF isSym /\ HasComp(c) THEN Comp(c, b) ELSE -3,
         mask |-> IF isSym /\ (c = "miupac" \/ (c = "mdna" /\ b \in MDnaCaseSyms \cup MDnaFixedSyms))
                  THEN Mask(c, b) ELSE -3,
         unmask |-> IF isSym /\ (c = "miupac" \/ (c = "mdna" /\ b \in MDnaCaseSyms \cup MDnaFixedSyms))
                    THEN Unmask(c, b) ELSE -3]

Cell(c, b) ==
    /\ out' = CellExpected(c, b)
    /\ OnlyOut

\* width and symbol list (sorted by code)
CodecInfo(c) ==
    /\ out' = [w |-> W(c), items |-> SetToSortSeq(CodesOf(c), <)]
    /\ OnlyOut

(***************************************************************************)
(* Properties of the machine                                               *)
(***************************************************************************)
TypeOK ==
    /\ \A r \in RegIds : reg[r].c \in CodecNames \cup {"none"}
                         /\ \A i \in 1 .. Len(reg[r].s) : reg[r].s[i] \in 0 .. 255
    /\ \A k \in KRegIds : KCanonical(kreg[k])

\* C06 frame: an action changes at most ONE sequence register
OneRegChanges == [][Cardinality({r \in RegIds : reg'[r] # reg[r]}) <= 1]_vars

\* C15: once every entry is folded, the inverse answers by preimage count,
\* whatever the folding order was
OrderIndependent ==
    \A t \in TRegIds :
        TableBuilt(t) =>
            \A aa \in AminoCodes : InvLookup(treg[t], aa) = TableToCodon(treg[t].m, aa)

\* C11: every live iterator is eventually exhausted (under fair stepping)
ItTerminates == \A i \in IRegIds : [](itr[i].live => <>ItDone(i))
=============================================================================
