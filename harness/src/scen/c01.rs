//! C01: text <-> packed round trip through all seven parsing entry points, with
//! valid / invalid / empty / non-ASCII inputs at lengths straddling word boundaries.
use crate::cx::Cx;
use crate::drv::{boundary_lens, whole, Drv};
use serde_json::json;

const BYTE_ENTRIES: [&str; 3] = ["bytes", "vec", "collect"];
const STR_ENTRIES: [&str; 4] = ["str", "string", "refstring", "fromstr"];

/// candidate offending ASCII bytes (whether a byte really is one is decided by the spec)
const ODD_ASCII: [u8; 16] = [b'N', b'U', b'a', b'x', b' ', b'\n', b'0', 0, 0x7f, b'X', b'-', b'.', b'Z', b'*', b't', b'B'];

pub fn run<A: Cx>(d: &mut Drv<A>, scale: usize) {
    let w = A::BITS as usize;
    let lens = boundary_lens(w);
    let mut dst = 0usize;
    for round in 0..scale.max(1) {
        for &n in &lens {
            for case in 0..8 {
                let mut t = d.rand_text(n);
                let byte_entry = d.rng.chance(1, 2);
                match case {
                    0 => {}
                    1 | 2 | 3 if n > 0 => {
                        let pos = match case {
                            1 => 0,
                            2 => n - 1,
                            _ => d.rng.below(n),
                        };
                        t[pos] = *d.rng.pick(&ODD_ASCII);
                    }
                    4 if n > 1 => {
                        // two offending bytes: the FIRST must be reported
                        let p = d.rng.below(n - 1);
                        let q = d.rng.range(p + 1, n - 1);
                        t[p] = *d.rng.pick(&ODD_ASCII);
                        t[q] = *d.rng.pick(&ODD_ASCII);
                    }
                    5 => {
                        for x in t.iter_mut() {
                            *x = *d.rng.pick(&ODD_ASCII);
                        }
                    }
                    6 if n > 0 => {
                        // non-ASCII
                        let pos = d.rng.below(n);
                        if byte_entry {
                            t[pos] = 0x80 + d.rng.below(128) as u8;
                        } else {
                            // a whole multi-byte character so the text stays valid UTF-8; half of the time
                            // one whose code point, cut to 8 or 7 bits, would be a symbol character
                            let alias = *d.rng.pick(A::ALPHABET) as u32;
                            let ch: String = match d.rng.below(8) {
                                0 => "é".into(),
                                1 => "Ж".into(),
                                2 => "€".into(),
                                3 => "🧬".into(),
                                4 => char::from_u32(0x100 + alias).unwrap().to_string(),
                                5 => char::from_u32(0x10000 + alias).unwrap().to_string(),
                                6 => char::from_u32(0x80 + alias).unwrap().to_string(),
                                _ => char::from_u32(0xFF00 + alias).unwrap().to_string(),
                            };
                            let mut u = t[..pos].to_vec();
                            u.extend_from_slice(ch.as_bytes());
                            u.extend_from_slice(&t[pos + 1..]);
                            t = u;
                        }
                    }
                    7 if n > 0 => {
                        // lower/upper-case twin of a valid symbol
                        let pos = d.rng.below(n);
                        t[pos] ^= 0x20;
                    }
                    _ => continue,
                }
                let entry = if byte_entry || std::str::from_utf8(&t).is_err() {
                    *d.rng.pick(&BYTE_ENTRIES)
                } else if round % 2 == 0 {
                    *d.rng.pick(&STR_ENTRIES)
                } else {
                    *d.rng.pick(&[&BYTE_ENTRIES[..], &STR_ENTRIES[..]].concat())
                };
                dst = (dst + 1) % 8;
                if d.rng.chance(1, 5) {
                    // the same text through an iterator whose size hint is only an upper bound
                    let adaptor = *d.rng.pick(&crate::drv::ADAPTORS);
                    let junk = d.rng.range(1, 9);
                    d.emit(json!({"op": "parse", "dst": 12, "c": A::NAME, "entry": "loosecollect", "adaptor": adaptor, "junk": junk, "bytes": t}));
                }
                let o = d.emit(json!({"op": "parse", "dst": dst, "c": A::NAME, "entry": entry, "bytes": t}));
                if o["ok"] == json!(true) {
                    // display -> parse -> display is the identity
                    let disp = o["v"]["disp"].clone();
                    let e2 = *d.rng.pick(&STR_ENTRIES);
                    d.emit(json!({"op": "parse", "dst": 8 + dst % 4, "c": A::NAME, "entry": e2, "bytes": disp}));
                    if d.rng.chance(1, 3) {
                        let via = *d.rng.pick(&["seq_display", "seq_into_string", "refseq_into_string", "display", "to_string", "string_from", "chars"]);
                        let src = if via.starts_with("seq") || via.starts_with("refseq") { whole(dst) } else { d.rand_src(dst) };
                        d.emit(json!({"op": "str", "src": src, "via": via}));
                    }
                    if d.rng.chance(1, 4) {
                        let n = d.len(dst);
                        let g: Vec<usize> = vec![0, n / 2, n.saturating_sub(1), n, n + 1];
                        d.emit(json!({"op": "obs", "src": whole(dst), "gets": g, "nths": []}));
                    }
                }
            }
        }
        d.reset();
    }
}

/// thorough: every one-byte string and every two-byte string over a 40-byte set
pub fn run_exhaustive<A: Cx>(d: &mut Drv<A>) {
    for b in 0..=255u8 {
        d.emit(json!({"op": "parse", "dst": 0, "c": A::NAME, "entry": "bytes", "bytes": [b]}));
        if b < 0x80 {
            d.emit(json!({"op": "parse", "dst": 1, "c": A::NAME, "entry": "str", "bytes": [b]}));
        }
    }
    let mut set: Vec<u8> = A::ALPHABET.to_vec();
    for &b in &ODD_ASCII {
        if !set.contains(&b) {
            set.push(b);
        }
    }
    set.truncate(40);
    for &a in &set {
        for &b in &set {
            let e = if (a as usize + b as usize) % 2 == 0 { "vec" } else { "fromstr" };
            d.emit(json!({"op": "parse", "dst": 2, "c": A::NAME, "entry": e, "bytes": [a, b]}));
        }
    }
}
