#!/bin/bash
# bin/mutant.sh <patch.diff> <tier> <Cxx> [<Cyy> ...]
# Development aid (NOT a registered check): apply a seeded change to /repo, run the named
# checks, and undo the change straight afterwards -- whatever happens.
set -u
patch=$(readlink -f "$1"); tier="$2"; shift 2
cd /repo || exit 2
if [ -n "$(git status --porcelain --untracked-files=no)" ]; then echo "mutant.sh: /repo is not clean"; exit 2; fi
restore() { git -C /repo checkout -- . ; git -C /repo clean -fdq -- bio-seq/tests 2>/dev/null; }
trap restore EXIT
git apply "$patch" || { echo "mutant.sh: patch does not apply"; exit 2; }
cd /verif
rc_all=0
for p in "$@"; do
  out=$(bin/check "$p" "$tier" 2>&1); rc=$?
  echo "== $p $tier -> exit $rc"
  echo "$out" | grep -E "VIOLATION|TOOL ERROR|KNOWN-FINDING|^OK" | head -4
  echo "$out" | grep -E "spec says|step [0-9]+ \(" | head -2 | cut -c1-500
  [ $rc -ne 0 ] && rc_all=$rc
done
exit $rc_all
