SPECIFICATION GSpec
CONSTANTS
    NR = 1
    NK = 1
    NT = 1
    NI = 1
INVARIANT Emit
CHECK_DEADLOCK FALSE
