"""Program-level checks (C16 literal macros, C17 derived codecs).

Programs are GENERATED as Rust source, compiled against /repo's working tree with the real
proc-macros, and either executed (the accepting half: every literal / derived codec logs what it
shows, and that trace is validated by TLC against spec/Trace.tla like any other) or required to fail
to compile (the rejecting half: one bin target per questionable item, each with a valid twin so that
a generator fault cannot masquerade as a rejection; the per-target verdicts are logged as events and
validated against the specification's LitVerdict / DeriveVerdict)."""
import json
import os
import random
import shutil
import subprocess
import sys
import time

sys.path.insert(0, os.path.dirname(os.path.abspath(__file__)))
from vlib import ROOT, HARNESS, OUT, ToolError, validate_with_known  # noqa: E402

WORK = os.path.join(ROOT, "progen", "work")

CARGO_TOML = """[package]
name = "progs"
version = "0.1.0"
edition = "2021"

[workspace]

[dependencies]
bio-seq = { path = "/repo/bio-seq", features = ["translation", "extra_codecs", "serde"] }
serde_json = "1"

[profile.dev]
debug = false
incremental = false

[profile.release]
debug = false
incremental = false
opt-level = 1
"""

PRELUDE = r'''#![allow(warnings)]
use bio_seq::prelude::*;
use serde_json::{json, Value};
use std::panic::{catch_unwind, AssertUnwindSafe};
#[path = "HASHREC"]
mod hashrec;
use hashrec::feed_of;

fn view<A: Codec>(s: &SeqSlice<A>) -> Value {
    let syms: Vec<u64> = s.iter().map(|x| x.to_bits() as u64).collect();
    let rebuilt: Seq<A> = s.iter().collect();
    let canon = *s == rebuilt && rebuilt == *s && feed_of(s) == feed_of(&rebuilt);
    json!({"len": s.len(), "syms": syms, "disp": s.to_string().into_bytes(), "canon": canon})
}
'''


def rust_str(b):
    """a Rust string literal with exactly these bytes (valid UTF-8)"""
    t = b.decode("utf-8")
    out = []
    for ch in t:
        if ch == "\\":
            out.append("\\\\")
        elif ch == '"':
            out.append('\\"')
        elif ch == "\n":
            out.append("\\n")
        elif ch == "\t":
            out.append("\\t")
        elif ch == "\r":
            out.append("\\r")
        elif ord(ch) < 32 or ord(ch) == 127:
            out.append("\\x%02x" % ord(ch))
        else:
            out.append(ch)
    return '"' + "".join(out) + '"'


def rust_str_spelled(b, style):
    """the same bytes SPELLED differently in the source: escapes, a line continuation, a raw string --
    what the macro must see is the string the literal denotes, not its spelling"""
    t = b.decode("ascii")
    if style == "raw":
        return 'r"' + t + '"'
    if style == "rawhash":
        return 'r#"' + t + '"#'
    out = []
    for i, ch in enumerate(t):
        if style == "hex" and i % 3 == 1:
            out.append("\\x%02x" % ord(ch))
        elif style == "unicode" and i % 4 == 2:
            out.append("\\u{%x}" % ord(ch))
        elif style == "continuation" and i > 0 and i % 30 == 0:
            out.append("\\\n            " + ch)
        else:
            out.append(ch)
    return '"' + "".join(out) + '"'


# literals whose macro invocation is spelled with escapes: (macro, text) -> style
SPELL = {}


# ------------------------------------------------------------------------------ C16
DNA = b"ACGT"
IUPAC = b"ACGTRYSWKMBDHVN-"


def lit_text(alpha, n, rot):
    return bytes(alpha[(i * 7 + rot + i // len(alpha)) % len(alpha)] for i in range(n))


def c16_items(tier, rng):
    lens = [0, 1, 2, 3, 15, 16, 17, 31, 32, 33, 63, 64, 65, 127, 128, 129, 200, 257]
    valid = []
    rots = 1 if tier == "quick" else 4
    for n in lens:
        for r in range(rots):
            valid.append(("dna", lit_text(DNA, n, r + n)))
            valid.append(("iupac", lit_text(IUPAC, n, r + n)))
    # beyond 64 machine words (2048 bases / 1024 IUPAC symbols) and a tail that is not a whole word
    # (the macros stop compiling somewhere past ~80 words -- "recursion limit reached" -- which is a
    # documented rustc limit the user can raise, not a wrong value; stay clearly below it)
    for n in ([2049, 2100] if tier == "quick" else [2048, 2049, 2100, 2300]):
        valid.append(("dna", lit_text(DNA, n, n)))
    for n in ([1025, 1100] if tier == "quick" else [1024, 1025, 1100, 1150]):
        valid.append(("iupac", lit_text(IUPAC, n, n)))
    for _ in range(10 if tier == "quick" else 60):
        n = rng.randint(0, 140)
        valid.append(("dna", bytes(rng.choice(DNA) for _ in range(n))))
        valid.append(("iupac", bytes(rng.choice(IUPAC) for _ in range(n))))
    # the SAME text through both macros inside one crate (pure A/C/G/T is valid for both), in both
    # orders of expansion, short and long
    for j, n in enumerate([4, 33, 127, 128, 129, 200, 300] if tier == "quick" else [1, 4, 33, 64, 127, 128, 129, 200, 256, 300, 1030]):
        t = lit_text(DNA, n, 3 * n + 1)
        pair = [("dna", t), ("iupac", t)]
        valid.extend(pair if j % 2 == 0 else pair[::-1])
    # the same kind of texts, SPELLED with escapes / a line continuation / as raw strings
    SPELL.clear()
    styles = ["hex", "unicode", "continuation", "raw", "rawhash"]
    for j, n in enumerate([5, 33, 64, 95, 130] if tier == "quick" else [2, 5, 31, 33, 64, 65, 95, 130, 200, 260]):
        for macro, alpha in (("dna", DNA), ("iupac", IUPAC)):
            t = lit_text(alpha, n, 11 * n + j)
            if (macro, t) not in SPELL and (macro, t) not in valid:
                valid.append((macro, t))
                SPELL[(macro, t)] = styles[(j + (macro == "iupac")) % len(styles)]
    kmers = []
    for k in ([1, 2, 3, 15, 16, 17, 31, 32] if tier == "quick" else list(range(1, 33))):
        kmers.append((lit_text(DNA, k, k), "usize"))
    for k in ([1, 31, 32, 33, 63, 64] if tier == "quick" else [1, 2, 16, 31, 32, 33, 42, 63, 64]):
        kmers.append((lit_text(DNA, k, k + 1), "u128"))
    for k in [5, 32]:
        kmers.append((lit_text(DNA, k, 3), "u64"))
    # invalid literals: one offending character at first / middle / last position
    bad_dna = ["a", "t", "N", "U", "X", "0", " ", "\n", "é", "🧬", "-"]
    bad_iupac = ["a", "n", "U", "Z", "7", " ", "\n", "Ж", "🫣", "."]
    invalid = []
    lens_bad = [1, 5, 33] if tier == "quick" else [1, 2, 5, 17, 33, 65]
    for macro, alpha, bads in (("dna", DNA, bad_dna), ("iupac", IUPAC, bad_iupac)):
        for bi, ch in enumerate(bads):
            for n in (lens_bad if tier != "quick" else [lens_bad[bi % len(lens_bad)]]):
                base = lit_text(alpha, n, bi)
                for where in ("first", "middle", "last"):
                    pos = {"first": 0, "middle": n // 2, "last": n - 1}[where]
                    if where != "first" and pos == 0:
                        continue
                    if tier == "quick" and where != ["first", "middle", "last"][bi % 3] and n > 1:
                        continue
                    t = base[:pos] + ch.encode("utf-8") + base[pos + 1:]
                    invalid.append((macro, t, base))
    # a text that is valid for iupac! but not for dna! -- it also appears among the valid iupac! literals
    # of the same program, so a verdict that depends on what another macro saw earlier would show
    for n in [130, 40]:
        t = lit_text(DNA, n, 5)
        t = t[: n // 2] + b"N" + t[n // 2 + 1:]
        valid.append(("iupac", t))
        invalid.append(("dna", t, lit_text(DNA, n, 5)))
    return valid, kmers, invalid


def c16_sources(valid, kmers):
    body = [PRELUDE, "fn main() {\n    std::panic::set_hook(Box::new(|_| {}));"]
    for macro, t in valid:
        ty = "Dna" if macro == "dna" else "Iupac"
        # runtime twin: the same text ('X' is the macro's spelling of the gap '-')
        rt = t.replace(b"X", b"-") if macro == "iupac" else t
        body.append("""    {
        let bytes: Vec<u64> = %s.bytes().map(|b| b as u64).collect();
        // a panic while using the literal is an observation, not a failure of this program
        let obs = catch_unwind(AssertUnwindSafe(|| {
            let l: &'static SeqSlice<%s> = %s!(%s);
            let p: Seq<%s> = Seq::try_from(%s).unwrap();
            let eq = l == p && p == l && l == &p[..] && *l == %s;
            let h = feed_of(l) == feed_of(&p) && feed_of(l) == feed_of(&p[..]);
            json!({"v": view(l), "eqparse": eq, "hasheq": h})
        })).unwrap_or(json!({"panic": true}));
        println!("{}", json!({"op": "litprog", "macro": "%s", "bytes": bytes, "obs": obs}));
    }""" % (rust_str(t), ty, macro, rust_str_spelled(t, SPELL[(macro, t)]) if (macro, t) in SPELL else rust_str(t),
            ty, rust_str(rt), rust_str(rt), macro))
    for t, st in kmers:
        k = len(t)
        mac = "kmer!(%s)" % rust_str(t) if st == "usize" else "kmer!(%s, %s)" % (rust_str(t), st)
        nw = 2 if st == "u128" else 1
        body.append("""    {
        let bytes: Vec<u64> = %s.bytes().map(|b| b as u64).collect();
        let obs = catch_unwind(AssertUnwindSafe(|| {
            let k = %s;
            let p: Kmer<Dna, %d, %s> = %s.parse().unwrap();
            let w = k.bs as u128;
            let limbs: Vec<u64> = (0..%d).map(|i| ((w >> (16 * i)) & 0xffff) as u64).collect();
            let eq = k == p && k.to_string() == %s && k == dna!(%s);
            let h = feed_of(&k) == feed_of(&p) && feed_of(&k) == feed_of(dna!(%s));
            json!({"kv": {"disp": k.to_string().into_bytes(), "limbs": limbs}, "eqparse": eq, "hasheq": h})
        })).unwrap_or(json!({"panic": true}));
        println!("{}", json!({"op": "kmerlit", "bytes": bytes, "st": "%s", "obs": obs}));
    }""" % (rust_str(t), mac, k, st, rust_str(t), 4 * nw, rust_str(t), rust_str(t), rust_str(t), st))
    body.append("}")
    return "\n".join(body).replace("HASHREC", os.path.join(HARNESS, "src", "hashrec.rs"))


def one_lit_bin(macro, t):
    # the other macro sees the same text first whenever that text is valid for it
    other = "iupac" if macro == "dna" else "dna"
    pre = ""
    try:
        ok_other = all(c in (IUPAC + b"X" if other == "iupac" else DNA) for c in t)
    except TypeError:
        ok_other = False
    if ok_other and len(t) > 0:
        pre = "let o = %s!(%s); println!(\"{}\", o.len()); " % (other, rust_str(t))
    return "#![allow(warnings)]\nuse bio_seq::prelude::*;\nfn main() { %slet s = %s!(%s); println!(\"{}\", s.len()); }\n" % (pre, macro, rust_str(t))


# ------------------------------------------------------------------------------ C17
def lit_form(rng, v, allow_byte=False):
    # a byte literal discriminant is only valid Rust in a #[repr(u8)] enum
    f = rng.choice(["dec", "bin", "hex", "byte"]) if allow_byte and 32 <= v < 127 and chr(v) not in "'\\" else rng.choice(["dec", "bin", "hex"])
    if f == "dec":
        return str(v)
    if f == "bin":
        return "0b" + format(v, "0%db" % rng.choice([1, 4, 8]))
    if f == "hex":
        return "0x%02X" % v
    return "b'%s'" % chr(v)


def c17_decls(tier, rng):
    decls = []
    maxes = [1, 2, 3, 4, 7, 8, 15, 16, 31, 32, 63, 64, 127, 128, 254, 255]
    n_each = 1 if tier == "quick" else 8
    extra = 30 if tier == "quick" else 320
    plan = [m for m in maxes for _ in range(n_each)] + [None] * extra
    for forced_max in plan:
        nv = rng.randint(2, 40)
        mx = forced_max if forced_max is not None else rng.choice([rng.randint(1, 255), rng.randint(1, 40)])
        nv = min(nv, mx + 1)
        pool = list(range(0, mx))
        rng.shuffle(pool)
        discs = [mx] + pool[: nv - 1]
        rng.shuffle(discs)
        used = set(discs)
        # display characters: distinct printable ASCII
        chars = list("ABCDEFGHIJKLMNOPQRSTUVWXYZ")
        rng.shuffle(chars)
        extra_chars = list("abcdefghijklmnopqrstuvwxyz0123456789*-.?!+=#@$%&")
        rng.shuffle(extra_chars)
        variants = []
        repr_u8 = rng.random() < 0.5
        width_needed = max(1, mx.bit_length()) if mx > 0 else 0
        bits = -1 if rng.random() < 0.5 else rng.randint(width_needed, 8)
        limit = 1 << (bits if bits >= 0 else width_needed)
        for i, dsc in enumerate(discs):
            if i < len(chars) and rng.random() < 0.7:
                name = chars[i] + rng.choice(["", "x", "Masked", "1"])
                ch = ord(chars[i])
                display = None
                if rng.random() < 0.25:
                    display = extra_chars.pop()
                    ch = ord(display)
            else:
                name = "V%d" % i
                display = extra_chars.pop()
                ch = ord(display)
            alts = []
            if rng.random() < 0.4:
                for _ in range(rng.randint(1, 4)):
                    cand = rng.randint(0, min(limit, 256) - 1)
                    if cand not in used:
                        used.add(cand)
                        alts.append(cand)
            alt_src = [lit_form(rng, a, True) for a in alts]
            # alternatives may be spread over several #[alt(..)] attributes, before or after #[display]
            groups = []
            rest = list(alt_src)
            while rest:
                k = rng.randint(1, len(rest))
                groups.append(rest[:k])
                rest = rest[k:]
            variants.append(dict(name=name, ch=ch, display=display, disc=dsc, alts=alts,
                                 disc_src=lit_form(rng, dsc, repr_u8), alt_src=alt_src, alt_groups=groups,
                                 alt_first=rng.random() < 0.5, trailing_comma=rng.random() < 0.3))
        # variant names must be distinct identifiers and display characters distinct
        names = set()
        for i, v in enumerate(variants):
            while v["name"] in names:
                v["name"] += "q"
            names.add(v["name"])
        if len({v["ch"] for v in variants}) != len(variants):
            continue
        decls.append(dict(bits=bits, repr_u8=repr_u8, variants=variants))
    return decls


def enum_source(d, name="E", derives="Clone, Copy, Debug, PartialEq, Eq, Hash, Codec"):
    lines = ["#[derive(%s)]" % derives]
    if d["bits"] >= 0:
        lines.append("#[bits(%d)]" % d["bits"])
    if d.get("repr_u8"):
        lines.append("#[repr(u8)]")
    lines.append("pub enum %s {" % name)
    for v in d["variants"]:
        attrs = []
        if v.get("display"):
            attrs.append("    #[display('%s')]" % v["display"])
        alt_lines = ["    #[alt(%s%s)]" % (", ".join(g), "," if v.get("trailing_comma") else "")
                     for g in v.get("alt_groups", [v["alt_src"]] if v["alts"] else [])]
        attrs = alt_lines + attrs if v.get("alt_first") else attrs + alt_lines
        lines.extend(attrs)
        if v.get("disc_src") is None:
            lines.append("    %s," % v["name"])
        else:
            lines.append("    %s = %s," % (v["name"], v["disc_src"]))
    lines.append("}")
    return "\n".join(lines)


def decl_json(d):
    return {"bits": d["bits"], "variants": [{"ch": v["ch"], "disc": v["disc"], "alts": v["alts"]} for v in d["variants"]]}


PROBE = r'''
fn probe<A: Codec>(decl: Value) {
    let r = catch_unwind(AssertUnwindSafe(|| {
        let tfb: Vec<i64> = (0..=255u8).map(|b| A::try_from_bits(b).map_or(-1, |x| x.to_bits() as i64)).collect();
        let tfa: Vec<i64> = (0..=255u8).map(|b| A::try_from_ascii(b).map_or(-1, |x| x.to_bits() as i64)).collect();
        let mut agree = true;
        for b in 0..=255u8 {
            if let Some(x) = A::try_from_bits(b) {
                agree &= catch_unwind(AssertUnwindSafe(|| A::unsafe_from_bits(b))).map_or(false, |y| y == x);
            }
            if let Some(x) = A::try_from_ascii(b) {
                agree &= catch_unwind(AssertUnwindSafe(|| A::unsafe_from_ascii(b))).map_or(false, |y| y == x);
            }
        }
        let codes: Vec<u64> = A::items().map(|x| x.to_bits() as u64).collect();
        let chars: Vec<u64> = A::items().map(|x| x.to_char() as u32 as u64).collect();
        // sequences over the derived codec: parse all characters, read them back symbol by symbol
        let text: String = A::items().map(|x| x.to_char()).collect();
        let seq: Seq<A> = Seq::try_from(text.as_str()).unwrap();
        let mut rt: Vec<u64> = seq.to_string().bytes().map(|b| b as u64).collect();
        let back: Vec<u64> = seq.iter().map(|x| x.to_bits() as u64).collect();
        let mut pushed = Seq::<A>::new();
        for x in A::items() { pushed.push(x); }
        if back != codes || pushed != seq || seq.len() != codes.len() || &seq[1..] != &pushed[1..] { rt = vec![0]; }
        // "sequences over a derived codec satisfy the same round-trip laws as built-ins": a 150-symbol
        // sequence (crosses 64-bit words for every width 1..8) against plain String / Vec operations
        let cs: Vec<char> = A::items().map(|x| x.to_char()).collect();
        let long: String = (0..150).map(|i| cs[(i * 7 + i / 3) % cs.len()]).collect();
        let ls: Seq<A> = Seq::try_from(long.as_str()).unwrap();
        let mut ok = ls.to_string() == long && ls.len() == 150;
        for (a, b) in [(0usize, 150usize), (1, 64), (21, 22), (63, 129), (100, 100), (149, 150)] {
            ok &= ls[a..b].to_string() == long[a..b];
            ok &= ls[a..b].to_owned().to_string() == long[a..b] && ls[a..b].to_owned() == ls[a..b];
            ok &= feed_of(&ls[a..b]) == feed_of(&ls[a..b].to_owned());
            ok &= ls[a..b].iter().map(|x| x.to_char()).collect::<String>() == long[a..b];
            ok &= ls[a..b].rev_iter().map(|x| x.to_char()).collect::<String>() == long[a..b].chars().rev().collect::<String>();
            ok &= ls[a..b].to_rev().to_string() == long[a..b].chars().rev().collect::<String>();
        }
        let mut twice = ls.to_rev();
        twice.rev();
        ok &= twice == ls;
        let mut e = ls[5..40].to_owned();
        let mut es: String = long[5..40].to_string();
        e.insert(3, &ls[60..70]);
        es.insert_str(3, &long[60..70]);
        e.remove(1..4);
        es.replace_range(1..4, "");
        e.prepend(&ls[140..]);
        es.insert_str(0, &long[140..]);
        e.append(&ls[..9]);
        es.push_str(&long[..9]);
        e.truncate(50);
        es.truncate(50);
        ok &= e.to_string() == es && e.len() == es.len();
        ok &= ls.windows(9).count() == 142 && ls.chunks(9).count() == 16;
        ok &= ls.windows(9).nth(57).map(|w| w.to_string()) == Some(long[57..66].to_string());
        ok &= ls.chunks(9).last().map(|w| w.to_string()) == Some(long[135..144].to_string());
        if A::BITS as usize * 3 <= 64 && A::BITS > 0 {
            ok &= ls.kmers::<3>().map(|k| k.to_string()).collect::<Vec<_>>() == (0..148).map(|i| long[i..i + 3].to_string()).collect::<Vec<_>>();
        }
        if !ok { rt = vec![0]; }
        json!({"bits": A::BITS, "tfb": tfb, "tfa": tfa, "unsafe_agree": agree, "codes": codes, "chars": chars, "roundtrip": rt})
    }));
    let obs = r.unwrap_or(json!({"panic": true}));
    println!("{}", json!({"op": "derive", "decl": decl, "obs": obs}));
}
'''


def c17_source(decls):
    body = [PRELUDE, PROBE]
    for i, d in enumerate(decls):
        body.append("mod d%d {\n    use bio_seq::prelude::*;\n%s\n}" % (i, "\n".join("    " + l for l in enum_source(d).splitlines())))
    body.append("fn main() {\n    std::panic::set_hook(Box::new(|_| {}));")
    for i, d in enumerate(decls):
        body.append("    probe::<d%d::E>(serde_json::from_str(%s).unwrap());" % (i, rust_str(json.dumps(decl_json(d)).encode())))
    body.append("}")
    return "\n".join(body).replace("HASHREC", os.path.join(HARNESS, "src", "hashrec.rs"))


def c17_one(d):
    return "#![allow(warnings)]\nuse bio_seq::prelude::*;\n%s\nfn main() { println!(\"{}\", E::BITS); }\n" % enum_source(d)


def c17_malformed(tier, rng):
    """(kind, source, decl-json, twin source)"""
    out = []
    base = dict(bits=-1, repr_u8=False, variants=[
        dict(name="A", ch=65, display=None, disc=0, alts=[], disc_src="0b00", alt_src=[]),
        dict(name="C", ch=67, display=None, disc=1, alts=[], disc_src="1", alt_src=[]),
        dict(name="G", ch=71, display=None, disc=2, alts=[], disc_src="0x02", alt_src=[]),
        dict(name="T", ch=84, display=None, disc=5, alts=[], disc_src="5", alt_src=[])])
    twin = c17_one(base)

    def variant(**kw):
        d = json.loads(json.dumps(base))
        d.update(kw)
        return d
    # declared width too small (max 5 needs 3 bits)
    for b in ([2] if tier == "quick" else [0, 1, 2]):
        d = variant(bits=b)
        out.append(("width", c17_one(d), decl_json(d), c17_one(variant(bits=3)), decl_json(variant(bits=3))))
    for mx, b in ([(255, 7), (16, 4)] if tier == "quick" else [(255, 7), (128, 7), (16, 4), (8, 3), (4, 2), (3, 1)]):
        d = variant(bits=b)
        d["variants"][3]["disc"] = mx
        d["variants"][3]["disc_src"] = str(mx)
        ok = json.loads(json.dumps(d))
        ok["bits"] = b + 1
        out.append(("width", c17_one(d), decl_json(d), c17_one(ok), decl_json(ok)))
    # missing / float / negative / expression discriminants
    for kind, src in (("missing", None), ("float", "1.0"), ("negative", "-1"), ("expression", "1 + 2"), ("string", '"x"'), ("char", "'c'")):
        if tier == "quick" and kind in ("string", "char"):
            continue
        d = variant()
        d["variants"][2]["disc_src"] = src
        out.append((kind, c17_one(d), decl_json(base), twin, decl_json(base)))
    # discriminants outside 0..=255 cannot be honoured
    for src in (["256", "0x100"] if tier == "quick" else ["256", "0x100", "300", "0b1_0000_0000", "65535", "70000", "4294967296"]):
        d = variant()
        d["variants"][3]["disc_src"] = src
        out.append(("toolarge", c17_one(d), decl_json(base), twin, decl_json(base)))
    # not an enum
    out.append(("struct", "#![allow(warnings)]\nuse bio_seq::prelude::*;\n#[derive(Codec)]\nstruct S { a: u8 }\nfn main() {}\n", decl_json(base), twin, decl_json(base)))
    out.append(("union", "#![allow(warnings)]\nuse bio_seq::prelude::*;\n#[derive(Codec)]\nunion U { a: u8, b: u8 }\nfn main() {}\n", decl_json(base), twin, decl_json(base)))
    return out


# ------------------------------------------------------------------------------ cargo
def project(tag):
    d = os.path.join(WORK, tag)
    shutil.rmtree(d, ignore_errors=True)
    os.makedirs(os.path.join(d, "src", "bin"))
    os.makedirs(os.path.join(d, ".cargo"))
    open(os.path.join(d, "Cargo.toml"), "w").write(CARGO_TOML)
    lock = "/repo/Cargo.lock" if os.path.exists("/repo/Cargo.lock") else os.path.join(HARNESS, "Cargo.lock")
    shutil.copy(lock, os.path.join(d, "Cargo.lock"))
    open(os.path.join(d, ".cargo", "config.toml"), "w").write(
        '[net]\noffline = true\n\n[build]\ntarget-dir = "%s"\nrustflags = ["-Awarnings"]\n' % os.path.join(WORK, "target"))
    return d


def cargo(d, args, timeout=3000):
    env = dict(os.environ)
    env["CARGO_NET_OFFLINE"] = "true"
    for k in ("CARGO_TARGET_DIR", "CARGO_BUILD_TARGET_DIR", "CARGO_BUILD_TARGET", "RUSTFLAGS", "CARGO_ENCODED_RUSTFLAGS",
              "CARGO_BUILD_RUSTFLAGS", "CARGO_PROFILE_DEV_DEBUG_ASSERTIONS", "CARGO_PROFILE_RELEASE_DEBUG_ASSERTIONS"):
        env.pop(k, None)
    p = subprocess.run(["cargo"] + args, cwd=d, env=env, stdout=subprocess.PIPE, stderr=subprocess.PIPE, timeout=timeout)
    return p.returncode, p.stdout.decode("utf-8", "replace"), p.stderr.decode("utf-8", "replace")


def verdicts(d, profile):
    """per-bin compile verdicts from `cargo check --bins --keep-going --message-format=json`"""
    args = ["check", "--offline", "--bins", "--keep-going", "--message-format=json"] + (["--release"] if profile == "release" else [])
    rc, out, err = cargo(d, args)
    ok, bad = set(), {}
    for line in out.splitlines():
        try:
            m = json.loads(line)
        except ValueError:
            continue
        if m.get("reason") == "compiler-artifact" and "bin" in m.get("target", {}).get("kind", []):
            ok.add(m["target"]["name"])
        if m.get("reason") == "compiler-message" and m.get("message", {}).get("level") == "error":
            bad.setdefault(m["target"]["name"], m["message"].get("message", ""))
    return ok - set(bad), bad, err


def run_bin(d, profile, name):
    args = ["run", "--offline", "--quiet", "--bin", name] + (["--release"] if profile == "release" else [])
    return cargo(d, args)


# ------------------------------------------------------------------------------ entry points
def run(pid, tier, prog, seed, known):
    t0 = time.time()
    rng = random.Random(seed * 7919 + (16 if pid == "C16" else 17))
    res = dict(kind="program", name=prog, evaluations=0, distinct=0, accepted_units=0, violations=[], samples=[],
               programs=0, taken=[])
    for profile in ("dev", "release"):
        tag = "%s-%s-%s" % (pid, tier, profile)
        d = project(tag)
        events_path = os.path.join(OUT, pid, tier, "programs-%s.ndjson" % profile)
        os.makedirs(os.path.dirname(events_path), exist_ok=True)
        events = []
        if pid == "C16":
            valid, kmers, invalid = c16_items(tier, random.Random(rng.random()))
            open(os.path.join(d, "src", "bin", "lits.rs"), "w").write(c16_sources(valid, kmers))
            for i, (macro, t, twin) in enumerate(invalid):
                open(os.path.join(d, "src", "bin", "bad_%d.rs" % i), "w").write(one_lit_bin(macro, t))
                open(os.path.join(d, "src", "bin", "twin_%d.rs" % i), "w").write(one_lit_bin(macro, twin))
            ok, bad, err = verdicts(d, profile)
            if "lits" not in ok:
                # the program holding every valid literal does not compile: one bin per literal tells
                # whether a VALID literal is refused (a violation, reported through the trace) or the
                # generated program itself is at fault (a tool error, never a violation)
                os.remove(os.path.join(d, "src", "bin", "lits.rs"))
                for i, (macro, t) in enumerate(valid):
                    open(os.path.join(d, "src", "bin", "one_%d.rs" % i), "w").write(one_lit_bin(macro, t))
                for i, (t, st) in enumerate(kmers):
                    open(os.path.join(d, "src", "bin", "onek_%d.rs" % i), "w").write(
                        "#![allow(warnings)]\nuse bio_seq::prelude::*;\nfn main() { let k = kmer!(%s%s); println!(\"{}\", k); }\n"
                        % (rust_str(t), "" if st == "usize" else ", " + st))
                combined_diag = bad.get("lits", err[-1500:])
                ok, bad, err = verdicts(d, profile)
                refused = [i for i in range(len(valid)) if ("one_%d" % i) not in ok] + \
                          [i for i in range(len(kmers)) if ("onek_%d" % i) not in ok]
                if not refused:
                    raise ToolError("the generated literal program does not compile although every literal does on its own "
                                    "(generator fault): %s" % combined_diag[:1500])
                for i, (macro, t) in enumerate(valid):
                    events.append(json.dumps({"op": "litverdict", "macro": macro, "bytes": list(t),
                                              "obs": {"compiled": ("one_%d" % i) in ok}, "diag": bad.get("one_%d" % i, "")[:300]}))
                for i, (t, st) in enumerate(kmers):
                    events.append(json.dumps({"op": "litverdict", "macro": "dna", "bytes": list(t),
                                              "obs": {"compiled": ("onek_%d" % i) in ok}, "diag": bad.get("onek_%d" % i, "")[:300]}))
            else:
                rc, out, err2 = run_bin(d, profile, "lits")
                if rc != 0:
                    raise ToolError("generated literal program failed to run: " + err2[-1500:])
                events += [l for l in out.splitlines() if l.startswith("{")]
            for i, (macro, t, twin) in enumerate(invalid):
                events.append(json.dumps({"op": "litverdict", "macro": macro, "bytes": list(t), "obs": {"compiled": ("bad_%d" % i) in ok}}))
                events.append(json.dumps({"op": "litverdict", "macro": macro, "bytes": list(twin), "obs": {"compiled": ("twin_%d" % i) in ok}}))
            res["programs"] += 1 + 2 * len(invalid)
        else:
            decls = c17_decls(tier, random.Random(rng.random()))
            mal = c17_malformed(tier, random.Random(rng.random()))
            open(os.path.join(d, "src", "bin", "derive_all.rs"), "w").write(c17_source(decls))
            for i, (kind, src, dj, twin, tj) in enumerate(mal):
                open(os.path.join(d, "src", "bin", "bad_%d.rs" % i), "w").write(src)
                open(os.path.join(d, "src", "bin", "twin_%d.rs" % i), "w").write(twin)
            ok, bad, err = verdicts(d, profile)
            if "derive_all" in ok:
                rc, out, err2 = run_bin(d, profile, "derive_all")
                if rc != 0:
                    raise ToolError("generated derive program failed to run: " + err2[-1500:])
                events += [l for l in out.splitlines() if l.startswith("{")]
            else:
                # some well-formed declaration is not honoured at compile time: one bin per declaration
                for i, dd in enumerate(decls):
                    open(os.path.join(d, "src", "bin", "one_%d.rs" % i), "w").write(
                        PRELUDE.replace("HASHREC", os.path.join(HARNESS, "src", "hashrec.rs")) + PROBE + enum_source(dd) +
                        "\nfn main() { std::panic::set_hook(Box::new(|_| {})); probe::<E>(serde_json::from_str(%s).unwrap()); }\n"
                        % rust_str(json.dumps(decl_json(dd)).encode()))
                os.remove(os.path.join(d, "src", "bin", "derive_all.rs"))
                ok, bad, err = verdicts(d, profile)
                for i, dd in enumerate(decls):
                    name = "one_%d" % i
                    if name in ok:
                        rc, out, err2 = run_bin(d, profile, name)
                        events += [l for l in out.splitlines() if l.startswith("{")]
                    else:
                        events.append(json.dumps({"op": "deriveverdict", "decl": decl_json(dd), "malformed": "none",
                                                  "obs": {"compiled": False}, "diag": bad.get(name, "")[:300]}))
            for i, (kind, src, dj, twin, tj) in enumerate(mal):
                # a too-small width is malformed by the declaration itself: the specification decides it
                events.append(json.dumps({"op": "deriveverdict", "decl": dj, "malformed": "none" if kind == "width" else kind,
                                          "obs": {"compiled": ("bad_%d" % i) in ok}}))
                events.append(json.dumps({"op": "deriveverdict", "decl": tj, "malformed": "none", "obs": {"compiled": ("twin_%d" % i) in ok}}))
            res["programs"] += len(decls) + 2 * len(mal)
        open(events_path, "w").write("\n".join(events) + "\n")
        r = validate_with_known(pid, events_path, "%s-%s-prog-%s" % (pid, tier, profile), known)
        res["taken"] += r.get("taken", [])
        res["evaluations"] += len(events)
        res["distinct"] += len(set(events))
        if r["accepted"]:
            res["accepted_units"] += 1
        else:
            idx = r["first_unmatched"]
            p = os.path.join(OUT, pid, tier, "violation-prog-%s.ndjson" % profile)
            hdr = {"replay": {"kind": "program", "property": pid, "profile": profile, "tier": tier, "first_unmatched": idx,
                              "spec_says": r["message"][:3000]}}
            open(p, "w").write(json.dumps(hdr) + "\n" + "\n".join(events[:idx]) + "\n")
            res["violations"].append(dict(path=p, profile=profile, index=idx, message=r["message"]))
        if len(res["samples"]) < 2:
            for e in events:
                if len(e) < 900:
                    res["samples"].append(json.loads(e))
                    break
        shutil.rmtree(d, ignore_errors=True)
    res["wall"] = time.time() - t0
    return res


def write_prog_violation(pid, tier, profile, d, name, diag):
    p = os.path.join(OUT, pid, tier, "violation-prog-%s-%s.ndjson" % (profile, name))
    hdr = {"replay": {"kind": "program", "property": pid, "profile": profile, "tier": tier, "diag": diag}}
    open(p, "w").write(json.dumps(hdr) + "\n")
    return p


def replay(pid, path, hdr):
    """re-generate and re-check the programs of the recorded tier/profile on the current tree"""
    from vlib import load_known
    seed = int(os.environ.get("VERIF_SEED", "20261003"))
    r = run(pid, hdr.get("tier", "quick"), "programs", seed, load_known())
    if r["violations"]:
        print("VIOLATION property=%s replay=%s" % (pid, path))
        return 1
    print("replay: the generated programs now behave as the specification says")
    return 0
