//! Small deterministic PRNG (splitmix64 seeding + xorshift64*), no external crates.
#[derive(Clone)]
pub struct Rng(u64);

impl Rng {
    pub fn new(seed: u64) -> Self {
        let mut z = seed.wrapping_add(0x9E37_79B9_7F4A_7C15);
        z = (z ^ (z >> 30)).wrapping_mul(0xBF58_476D_1CE4_E5B9);
        z = (z ^ (z >> 27)).wrapping_mul(0x94D0_49BB_1331_11EB);
        z ^= z >> 31;
        Rng(if z == 0 { 0x1234_5678_9ABC_DEF1 } else { z })
    }
    pub fn next(&mut self) -> u64 {
        let mut x = self.0;
        x ^= x >> 12;
        x ^= x << 25;
        x ^= x >> 27;
        self.0 = x;
        x.wrapping_mul(0x2545_F491_4F6C_DD1D)
    }
    /// uniform in 0..n (n > 0)
    pub fn below(&mut self, n: usize) -> usize {
        (self.next() % (n as u64)) as usize
    }
    /// uniform in lo..=hi
    pub fn range(&mut self, lo: usize, hi: usize) -> usize {
        lo + self.below(hi - lo + 1)
    }
    pub fn chance(&mut self, num: usize, den: usize) -> bool {
        self.below(den) < num
    }
    pub fn pick<'a, T>(&mut self, v: &'a [T]) -> &'a T {
        &v[self.below(v.len())]
    }
    pub fn fork(&mut self) -> Rng {
        Rng::new(self.next())
    }
}
