//! Driver plumbing shared by all scenarios: execute an op on the real library,
//! log `op + obs` as one ndjson line.
use crate::cx::Cx;
use crate::rng::Rng;
use crate::world::{merge, World, NREG};
use serde_json::{json, Value};

/// iterator adaptors for producers fed from iterators (see world::with_loose_iter)
pub const ADAPTORS: [&str; 7] = ["filter", "filter_map", "flat_map", "take_while", "skip_while", "chain", "from_fn"];

pub struct Drv<A: Cx> {
    pub w: World<A>,
    pub rng: Rng,
    pub out: Vec<String>,
    /// when set, every line is written (and flushed) as it is produced and the call about to be
    /// made is recorded in `<path>.intent`, so that a crash of the process is attributable
    pub sink: Option<(std::io::BufWriter<std::fs::File>, String)>,
    /// own stream for the decision to ask an observer a second time (does not disturb the scenario's)
    pub again: Rng,
    /// while set, every emitted call carries `nocanon` (the view leaves structural equality out)
    pub nocanon: bool,
}

pub fn step(f: &str, a: usize, b: usize) -> Value {
    json!({"f": f, "a": a, "b": b})
}

pub fn whole(r: usize) -> Value {
    json!({"base": "reg", "r": r, "path": []})
}

pub fn sl(r: usize, a: usize, b: usize) -> Value {
    json!({"base": "reg", "r": r, "path": [step("r", a, b)]})
}

impl<A: Cx> Drv<A> {
    pub fn new(rng: Rng) -> Self {
        Drv { w: World::new(), rng, out: Vec::new(), sink: None, again: Rng::new(0xA6A1), nocanon: false }
    }

    pub fn stream_to(&mut self, path: &str) {
        let f = std::fs::File::create(path).expect("harness: cannot create the trace file");
        self.sink = Some((std::io::BufWriter::new(f), format!("{path}.intent")));
    }

    pub fn log_line(&mut self, line: String) {
        use std::io::Write;
        if let Some((w, _)) = self.sink.as_mut() {
            writeln!(w, "{line}").unwrap();
            w.flush().unwrap();
        }
        self.out.push(line);
    }

    pub fn emit(&mut self, mut op: Value) -> Value {
        if self.nocanon {
            op["nocanon"] = json!(true);
        }
        if let Some((_, intent)) = self.sink.as_ref() {
            let _ = std::fs::write(intent, op.to_string());
        }
        let obs = self.w.exec(&op);
        self.log_line(merge(&op, obs.clone()).to_string());
        // an observer changes nothing, so asking again must give the same answer (the specification
        // is asked again too): every so often the very same call is made a second time
        const PURE: [&str; 21] = ["hash", "obs", "str", "eq", "cmp", "toint", "kmers", "kminmax", "itrun", "itmix", "convert", "toamino",
            "trytoamino", "trytocodon", "tableamino", "tablecodon", "contains", "kobs", "far", "mapget", "intoraw"];
        if PURE.contains(&crate::world::gs(&op, "op")) && self.again.chance(1, 12) {
            let second = self.w.exec(&op);
            self.log_line(merge(&op, second).to_string());
        }
        obs
    }

    pub fn reset(&mut self) {
        self.emit(json!({"op": "reset"}));
    }

    pub fn len(&self, r: usize) -> usize {
        if r < NREG {
            self.w.regs[r].as_ref().map_or(0, |s| s.len())
        } else {
            self.w.lits[r - NREG].map_or(0, |s| s.len())
        }
    }

    /// all canonical codes of the codec (from the documented item list)
    pub fn codes(&self) -> Vec<u8> {
        A::items().map(|x| x.to_bits()).collect()
    }

    /// n symbol codes.  Mostly uniform; sometimes built from RUNS of one symbol (lowest, highest
    /// or random code: whole words of zeros / ones, long homopolymers) or periodic with a short
    /// period, so that value patterns -- not only lengths -- vary.
    pub fn rand_syms(&mut self, n: usize) -> Vec<u8> {
        let c = self.codes();
        let lo = *c.iter().min().unwrap();
        let hi = *c.iter().max().unwrap();
        match self.rng.below(8) {
            0 | 1 => {
                let mut v = Vec::with_capacity(n);
                while v.len() < n {
                    let longrun = self.rng.chance(1, 3);
                    let run = 1 + self.rng.below(if longrun { 70 } else { 9 });
                    let x = match self.rng.below(4) {
                        0 => lo,
                        1 => hi,
                        _ => *self.rng.pick(&c),
                    };
                    for _ in 0..run.min(n - v.len()) {
                        v.push(x);
                    }
                }
                v
            }
            2 => {
                let period = 2 + self.rng.below(4);
                let unit: Vec<u8> = (0..period).map(|_| *self.rng.pick(&c)).collect();
                (0..n).map(|i| unit[i % period]).collect()
            }
            _ => (0..n).map(|_| *self.rng.pick(&c)).collect(),
        }
    }

    /// random valid text of n symbols (same value-pattern styles as rand_syms)
    pub fn rand_text(&mut self, n: usize) -> Vec<u8> {
        match self.rng.below(6) {
            0 => {
                let mut v = Vec::with_capacity(n);
                while v.len() < n {
                    let run = 1 + self.rng.below(40);
                    let x = *self.rng.pick(A::ALPHABET);
                    for _ in 0..run.min(n - v.len()) {
                        v.push(x);
                    }
                }
                v
            }
            _ => (0..n).map(|_| *self.rng.pick(A::ALPHABET)).collect(),
        }
    }

    /// a random in-bounds range step of any of the seven forms over a sequence of length n
    pub fn rand_step(&mut self, n: usize) -> Value {
        loop {
            let f = *self.rng.pick(&["r", "ri", "rt", "rti", "rf", "full", "idx"]);
            let a = self.rng.range(0, n);
            let b = self.rng.range(a, n);
            match f {
                "r" => return step("r", a, b),
                "ri" if b > a => return step("ri", a, b - 1),
                "rt" => return step("rt", 0, b),
                "rti" if b > 0 => return step("rti", 0, b - 1),
                "rf" => return step("rf", a, 0),
                "full" => return step("full", 0, 0),
                "idx" if a < n => return step("idx", a, 0),
                _ => {}
            }
        }
    }

    /// random in-bounds source over register r: nested path of depth 0..=3
    pub fn rand_src(&mut self, r: usize) -> Value {
        let mut n = self.len(r);
        let depth = self.rng.below(4);
        let mut path = Vec::new();
        for _ in 0..depth {
            let st = self.rand_step(n);
            n = step_len(&st, n);
            path.push(st);
        }
        json!({"base": "reg", "r": r, "path": path})
    }

    /// every bit pattern the codec decodes (canonical codes AND documented alternatives)
    pub fn patterns(&self) -> Vec<u8> {
        let top: u32 = 1 << A::BITS;
        (0..top).map(|p| p as u8).filter(|&p| A::try_from_bits(p).is_some()).collect()
    }

    /// the patterns that are alternatives (decode to a symbol whose own code is different)
    pub fn alt_patterns(&self) -> Vec<u8> {
        self.patterns().into_iter().filter(|&p| A::try_from_bits(p).unwrap().to_bits() != p).collect()
    }

    /// Register `dst` rebuilt from a machine-word image holding the given raw PATTERNS (which may be
    /// alternatives): the only public way to an owned sequence that stores them.
    pub fn from_patterns(&mut self, dst: usize, pats: &[u8]) {
        let w = A::BITS as usize;
        let nwords = (pats.len() * w + 63) / 64;
        let mut words = vec![0u64; nwords.max(1)];
        for (i, &c) in pats.iter().enumerate() {
            for b in 0..w {
                if (c >> b) & 1 == 1 {
                    let pos = i * w + b;
                    words[pos / 64] |= 1u64 << (pos % 64);
                }
            }
        }
        let mut l = Vec::new();
        for x in words {
            for i in 0..4 {
                l.push((x >> (16 * i)) & 0xffff);
            }
        }
        self.emit(json!({"op": "fromraw", "dst": dst, "c": A::NAME, "n": pats.len(), "limbs": l}));
    }

    /// A source that is NOT a window of an owned register: a compiled static literal (codecs that have
    /// literal macros) or the slice a machine-word k-mer dereferences to, re-sliced to a random depth.
    /// Registers used: literal slot 23, k-mer register 15.
    pub fn foreign_src(&mut self) -> (Value, usize) {
        let lits = A::lits();
        let (base, r, mut n) = if !lits.is_empty() && self.rng.chance(1, 2) {
            let id = self.rng.below(lits.len());
            let t = lits[id].0;
            self.emit(json!({"op": "lit", "dst": NREG + 7, "c": A::NAME, "id": id, "bytes": t.as_bytes()}));
            ("reg", NREG + 7, t.len())
        } else {
            let kmax = 64 / A::BITS as usize;
            let k = *self.rng.pick(&[1, 2, 3, kmax / 2, kmax - 1, kmax]);
            let k = if k >= 1 && crate::kd::KS.contains(&k) { k } else { 1 };
            let t = self.rand_text(k);
            self.emit(json!({"op": "kparse", "kd": 15, "c": A::NAME, "k": k, "st": "usize", "bytes": t}));
            ("kmer", 15, k)
        };
        let mut path = Vec::new();
        for _ in 0..self.rng.below(3) {
            let st = self.rand_step(n);
            n = step_len(&st, n);
            path.push(st);
        }
        (json!({"base": base, "r": r, "path": path}), n)
    }

    /// Build register `dst` so that it holds exactly `content`, through a randomly chosen
    /// PRODUCTION (several public calls): the same content reached by parsing, collecting, truncating,
    /// draining, reversing twice, copying out of an offset window, splicing, serde, a raw image, ...
    /// Registers 13..=15 are scratch.  The later observations of a scenario are then made on values
    /// with very different histories (interactions between features).
    pub fn produce(&mut self, dst: usize, content: &[u8]) {
        let n = content.len();
        let c = A::NAME;
        let comp = matches!(c, "dna" | "iupac" | "mdna" | "miupac" | "degen" | "x3");
        let filler = self.codes()[0];
        let pick = self.rng.below(18);
        match pick {
            0 => {
                let text: Vec<u8> = content.iter().map(|&x| crate::world::sym::<A>(x).to_char() as u8).collect();
                if text.iter().all(|b| b.is_ascii()) {
                    self.emit(json!({"op": "parse", "dst": dst, "c": c, "entry": "str", "bytes": text}));
                } else {
                    self.emit(json!({"op": "fromsyms", "dst": dst, "c": c, "via": "iter", "syms": content}));
                }
            }
            1 => {
                let mut v = content.to_vec();
                let extra = self.rng.range(1, 70);
                v.extend(self.rand_syms(extra));
                self.emit(json!({"op": "fromsyms", "dst": dst, "c": c, "via": "vec", "syms": v}));
                self.emit(json!({"op": "truncate", "dst": dst, "n": n}));
            }
            2 => {
                let k = self.rng.range(1, 70);
                let mut v = self.rand_syms(k);
                v.extend_from_slice(content);
                self.emit(json!({"op": "fromsyms", "dst": dst, "c": c, "via": "iter", "syms": v}));
                self.emit(json!({"op": "remove", "dst": dst, "range": step("rt", 0, k)}));
            }
            3 => {
                let r: Vec<u8> = content.iter().rev().copied().collect();
                self.emit(json!({"op": "fromsyms", "dst": dst, "c": c, "via": "iter", "syms": r}));
                self.emit(json!({"op": "inplace", "dst": dst, "t": "rev"}));
            }
            4 if comp => {
                // the complement is an involution: complement what the spec says is the complement
                self.emit(json!({"op": "fromsyms", "dst": 15, "c": c, "via": "iter", "syms": content}));
                self.emit(json!({"op": "copying", "dst": dst, "src": whole(15), "t": "comp", "via": "seq"}));
                self.emit(json!({"op": "inplace", "dst": dst, "t": "comp"}));
            }
            5 => {
                let a = self.rng.range(1, 67);
                let mut v = self.rand_syms(a);
                v.extend_from_slice(content);
                v.push(filler);
                self.emit(json!({"op": "fromsyms", "dst": 15, "c": c, "via": "iter", "syms": v}));
                let via = *self.rng.pick(&["to_owned", "from", "into", "collect"]);
                self.emit(json!({"op": "toowned", "dst": dst, "src": sl(15, a, a + n), "via": via}));
            }
            6 => {
                let h = n / 2;
                self.emit(json!({"op": "fromsyms", "dst": dst, "c": c, "via": "iter", "syms": content[..h]}));
                let a = self.rng.range(0, 40);
                let mut v = self.rand_syms(a);
                v.extend_from_slice(&content[h..]);
                self.emit(json!({"op": "fromsyms", "dst": 15, "c": c, "via": "iter", "syms": v}));
                self.emit(json!({"op": "append", "dst": dst, "src": sl(15, a, a + n - h)}));
            }
            7 if n >= 3 => {
                let a = n / 3;
                let b = 2 * n / 3;
                let mut rest = content[..a].to_vec();
                rest.extend_from_slice(&content[b..]);
                self.emit(json!({"op": "fromsyms", "dst": dst, "c": c, "via": "iter", "syms": rest}));
                self.emit(json!({"op": "fromsyms", "dst": 15, "c": c, "via": "iter", "syms": content[a..b]}));
                self.emit(json!({"op": "insert", "dst": dst, "i": a, "src": whole(15)}));
            }
            8 => {
                self.emit(json!({"op": "fromsyms", "dst": 15, "c": c, "via": "iter", "syms": content}));
                let fmt = *self.rng.pick(&crate::scen::c18::FORMATS);
                self.emit(json!({"op": "serde", "dst": dst, "r": 15, "fmt": fmt}));
            }
            9 => {
                self.emit(json!({"op": "fromsyms", "dst": 15, "c": c, "via": "iter", "syms": content}));
                let o = self.emit(json!({"op": "intoraw", "r": 15}));
                self.emit(json!({"op": "fromraw", "dst": dst, "c": c, "n": n, "limbs": o["limbs"]}));
            }
            10 => {
                self.emit(json!({"op": "fromsyms", "dst": 15, "c": c, "via": "iter", "syms": content}));
                self.emit(json!({"op": "clone", "dst": dst, "r": 15}));
            }
            11 => {
                let cap = self.rng.range(0, 2 * n + 3);
                self.emit(json!({"op": "new", "dst": dst, "c": c, "via": "withcap", "cap": cap}));
                let h = self.rng.range(0, n);
                self.emit(json!({"op": "extend", "dst": dst, "syms": content[..h]}));
                for &x in &content[h..(h + 3).min(n)] {
                    self.emit(json!({"op": "push", "dst": dst, "x": x}));
                }
                if h + 3 < n {
                    self.emit(json!({"op": "extend", "dst": dst, "syms": content[h + 3..], "adaptor": "filter", "junk": 3, "via": "trait"}));
                }
            }
            12 if c == "iupac" => {
                self.emit(json!({"op": "fromsyms", "dst": 15, "c": c, "via": "iter", "syms": content}));
                let t = *self.rng.pick(&["or", "and"]);
                self.emit(json!({"op": "bitop", "dst": dst, "x": whole(15), "y": whole(15), "t": t, "via": "ref"}));
            }
            14 | 15 | 16 => {
                // from bitvec's own types: an owned bit vector, one with spare capacity, a bit slice at an offset
                let via = ["bv", "bvcap", "bs"][pick - 14];
                let pad = self.rng.range(0, 130);
                self.emit(json!({"op": "fromsyms", "dst": dst, "c": c, "via": via, "pad": pad, "syms": content}));
            }
            13 => {
                let adaptor = *self.rng.pick(&ADAPTORS);
                self.emit(json!({"op": "fromsyms", "dst": dst, "c": c, "via": "loosecollect", "adaptor": adaptor, "junk": 4, "syms": content}));
            }
            _ => {
                self.emit(json!({"op": "fromsyms", "dst": dst, "c": c, "via": "iter", "syms": content}));
            }
        }
    }

    pub fn obs(&mut self, src: Value) -> Value {
        self.emit(json!({"op": "obs", "src": src, "gets": [], "nths": []}))
    }
}

/// length of the slice a (valid) step selects from a sequence of length n
pub fn step_len(st: &Value, n: usize) -> usize {
    let a = st["a"].as_u64().unwrap() as usize;
    let b = st["b"].as_u64().unwrap() as usize;
    match st["f"].as_str().unwrap() {
        "r" => b - a,
        "ri" => b + 1 - a,
        "rt" => b,
        "rti" => b + 1,
        "rf" => n - a,
        "full" => n,
        "idx" => 1,
        _ => unreachable!(),
    }
}

/// lengths that straddle 64-bit word boundaries for a symbol width
pub fn boundary_lens(w: usize) -> Vec<usize> {
    let mut v = vec![0, 1, 2, 3];
    for words in 1..=3 {
        let n = words * 64 / w;
        for d in [-1i64, 0, 1] {
            let x = n as i64 + d;
            if x >= 0 {
                v.push(x as usize);
            }
        }
        if (words * 64) % w != 0 {
            v.push(n + 2);
        }
    }
    v.sort();
    v.dedup();
    v
}
