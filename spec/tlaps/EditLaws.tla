------------------------------ MODULE EditLaws ------------------------------
(***************************************************************************)
(* Unbounded proof (TLAPS) that the list-level edits C06 is stated with    *)
(* (SeqOps.Ins / Rem / Trunc, Append = Ins at the end, Prepend = Ins at 0, *)
(* Push = Append of one symbol) behave like edits of a plain list, for ANY *)
(* length, position, argument and alphabet: an insertion leaves everything *)
(* before the position where it was, puts the argument there and shifts    *)
(* the rest by the argument's length; removing what was inserted, or       *)
(* re-inserting what was removed, restores the sequence; truncation after  *)
(* a push restores it.  A sequence of length n is a function on 1 .. n     *)
(* (what SubSeq / \o produce, written out).                                *)
(***************************************************************************)
EXTENDS Integers, TLAPS

CONSTANT Sym

\* insert the m symbols of t before position i (0-based: after the first i symbols) of f, |f| = n
Ins(n, f, i, m, t) ==
    [k \in 1 .. (n + m) |-> IF k <= i THEN f[k] ELSE IF k <= i + m THEN t[k - i] ELSE f[k - m]]
\* remove positions lo .. hi-1 (0-based, half open)
Rem(n, f, lo, hi) == [k \in 1 .. (n - (hi - lo)) |-> IF k <= lo THEN f[k] ELSE f[k + (hi - lo)]]
Trunc(f, n2) == [k \in 1 .. n2 |-> f[k]]
Sl(f, lo, hi) == [k \in 1 .. (hi - lo) |-> f[lo + k]]

THEOREM InsShape ==
    ASSUME NEW n \in Nat, NEW f \in [1 .. n -> Sym], NEW i \in 0 .. n, NEW m \in Nat, NEW t \in [1 .. m -> Sym]
    PROVE  /\ Ins(n, f, i, m, t) \in [1 .. (n + m) -> Sym]
           /\ \A k \in 1 .. i : Ins(n, f, i, m, t)[k] = f[k]                       \* nothing before moves
           /\ \A k \in 1 .. m : Ins(n, f, i, m, t)[i + k] = t[k]                   \* the argument, in order
           /\ \A k \in (i + 1) .. n : Ins(n, f, i, m, t)[k + m] = f[k]             \* the rest, shifted by m
  BY DEF Ins

THEOREM RemShape ==
    ASSUME NEW n \in Nat, NEW f \in [1 .. n -> Sym], NEW lo \in 0 .. n, NEW hi \in lo .. n
    PROVE  /\ Rem(n, f, lo, hi) \in [1 .. (n - (hi - lo)) -> Sym]
           /\ \A k \in 1 .. lo : Rem(n, f, lo, hi)[k] = f[k]
           /\ \A k \in (hi + 1) .. n : Rem(n, f, lo, hi)[k - (hi - lo)] = f[k]
  BY DEF Rem

THEOREM RemoveWhatWasInserted ==
    ASSUME NEW n \in Nat, NEW f \in [1 .. n -> Sym], NEW i \in 0 .. n, NEW m \in Nat, NEW t \in [1 .. m -> Sym]
    PROVE  Rem(n + m, Ins(n, f, i, m, t), i, i + m) = f
<1>1. (n + m) - ((i + m) - i) = n
  OBVIOUS
<1>2. \A k \in 1 .. n : (k <= i => k \in 1 .. (n + m)) /\ (k > i => k + m \in 1 .. (n + m) /\ k + m > i + m)
  OBVIOUS
<1>3. Rem(n + m, Ins(n, f, i, m, t), i, i + m) = [k \in 1 .. n |-> f[k]]
  BY <1>1, <1>2 DEF Rem, Ins
<1> QED
  BY <1>3

THEOREM ReinsertWhatWasRemoved ==
    ASSUME NEW n \in Nat, NEW f \in [1 .. n -> Sym], NEW lo \in 0 .. n, NEW hi \in lo .. n
    PROVE  Ins(n - (hi - lo), Rem(n, f, lo, hi), lo, hi - lo, Sl(f, lo, hi)) = f
<1>1. (n - (hi - lo)) + (hi - lo) = n
  OBVIOUS
<1>2. \A k \in 1 .. n : /\ (k <= lo => k \in 1 .. (n - (hi - lo)))
                        /\ (k > lo /\ k <= hi => k - lo \in 1 .. (hi - lo) /\ lo + (k - lo) = k)
                        /\ (k > hi => k - (hi - lo) \in 1 .. (n - (hi - lo)) /\ k - (hi - lo) > lo
                                      /\ (k - (hi - lo)) + (hi - lo) = k)
  OBVIOUS
<1>3. Ins(n - (hi - lo), Rem(n, f, lo, hi), lo, hi - lo, Sl(f, lo, hi)) = [k \in 1 .. n |-> f[k]]
  BY <1>1, <1>2 DEF Ins, Rem, Sl
<1> QED
  BY <1>3

\* push = insertion of one symbol at the end; truncating back restores the sequence
THEOREM TruncAfterPush ==
    ASSUME NEW n \in Nat, NEW f \in [1 .. n -> Sym], NEW x \in Sym
    PROVE  Trunc(Ins(n, f, n, 1, [k \in 1 .. 1 |-> x]), n) = f
<1>1. Trunc(Ins(n, f, n, 1, [k \in 1 .. 1 |-> x]), n) = [k \in 1 .. n |-> f[k]]
  BY DEF Trunc, Ins
<1> QED
  BY <1>1

\* truncation is the prefix; truncating to the length itself changes nothing
THEOREM TruncShape ==
    ASSUME NEW n \in Nat, NEW f \in [1 .. n -> Sym], NEW n2 \in 0 .. n
    PROVE  /\ Trunc(f, n2) \in [1 .. n2 -> Sym]
           /\ \A k \in 1 .. n2 : Trunc(f, n2)[k] = f[k]
           /\ Trunc(f, n) = f
  BY DEF Trunc
=============================================================================
