------------------------------- MODULE MC_C06 -------------------------------
(* C06 (and C18: SerdeRT rides on the same histories): the register machine *)
(* under every edit with every in-bounds argument and every range form.     *)
EXTENDS MCBase

CONSTANTS MaxLen
Alpha == {0, 3}
Wd == 2

MCInit2 ==
    /\ reg = [r \in RegIds |-> IF r = 0 THEN [c |-> "dna", s |-> <<>>] ELSE [c |-> "dna", s |-> <<0, 3, 3>>]]
    /\ kreg = [r \in KRegIds |-> KNil]
    /\ treg = [r \in TRegIds |-> TNil]
    /\ itr = [r \in IRegIds |-> INil]
    /\ feed = <<>>
    /\ out = [init |-> TRUE]

\* an edit together with the frame fact it must establish (checked on every transition)
Checked(A, P) == A /\ Assert(P, "an edit disturbed symbols outside the edited region")

Edit(d) ==
    \/ \E x \in Alpha : Checked(Push(d, x), IsPrefix(reg[d].s, reg'[d].s) /\ Len(reg'[d].s) = Len(reg[d].s) + 1)
    \/ Checked(Extend(d, <<0, 3>>), IsPrefix(reg[d].s, reg'[d].s))
    \/ Clear(d)
    \/ \E n \in 0 .. Len(reg[d].s) : Checked(Truncate(d, n), IsPrefix(reg'[d].s, reg[d].s) /\ Len(reg'[d].s) = n)
    \/ \E st \in StepsIn(Len(reg[d].s)) :
          Checked(RemoveRange(d, st),
                  LET n == Len(reg[d].s) lo == Lo(st, n) hi == Hi(st, n)
                  IN  /\ SubSeq(reg'[d].s, 1, lo) = SubSeq(reg[d].s, 1, lo)
                      /\ SubSeq(reg'[d].s, lo + 1, Len(reg'[d].s)) = SubSeq(reg[d].s, hi + 1, n)
                      /\ Len(reg'[d].s) = n - (hi - lo))
    \/ \E r \in RegIds \ {d} : \E src \in Sources1(r) :
          \/ Checked(AppendSl(d, src), IsPrefix(reg[d].s, reg'[d].s) /\ IsSuffix(Resolve(src).s, reg'[d].s))
          \/ Checked(PrependSl(d, src), IsSuffix(reg[d].s, reg'[d].s) /\ IsPrefix(Resolve(src).s, reg'[d].s))
          \/ \E i \in 0 .. Len(reg[d].s) :
                Checked(InsertSl(d, i, src),
                        /\ SubSeq(reg'[d].s, 1, i) = SubSeq(reg[d].s, 1, i)
                        /\ SubSeq(reg'[d].s, i + 1, i + Len(Resolve(src).s)) = Resolve(src).s
                        /\ SubSeq(reg'[d].s, i + Len(Resolve(src).s) + 1, Len(reg'[d].s)) = SubSeq(reg[d].s, i + 1, Len(reg[d].s)))
          \/ Checked(ToOwned(d, src), reg'[d].s = Resolve(src).s /\ reg'[r] = reg[r])
    \/ \E r \in RegIds \ {d} : Checked(Clone(d, r), reg'[d] = reg[r]) \/ Checked(SerdeRT(d, r), reg'[d] = reg[r])

MCNext == \E d \in RegIds : Edit(d)
MCSpec == MCInit2 /\ [][MCNext]_vars

Bounded == \A r \in RegIds : Len(reg[r].s) <= MaxLen

\* packing facts every register satisfies
PackLaws ==
    \A r \in RegIds :
        LET s == reg[r].s IN
        /\ Len(Pack(s, Wd)) = Len(s) * Wd
        /\ Unpack(Pack(s, Wd), Wd) = s
        /\ \A x \in Alpha : M_Push(Pack(s, Wd), x, Wd) = Pack(Append(s, x), Wd)

=============================================================================
