//! C08: k-mer iteration and construction; C09: k-mer operations; C10: ordering.
use crate::cx::Cx;
use crate::drv::{sl, whole, Drv};
use crate::kd::KS;
use serde_json::{json, Value};

pub fn kset<A: Cx>(st: &str, all: bool) -> Vec<usize> {
    let w = A::BITS as usize;
    let cap = if st == "u128" { 128 / w } else { 64 / w };
    let mut v: Vec<usize> = if all {
        KS.iter().copied().filter(|&k| k <= cap).collect()
    } else {
        let mut v = vec![1, 2, 3, 32 / w, 64 / w - 1, 64 / w];
        if st == "u128" {
            v.extend([64 / w + 1, 128 / w - 1, 128 / w]);
        }
        v.into_iter().filter(|&k| k >= 1 && k <= cap && KS.contains(&k)).collect()
    };
    v.sort();
    v.dedup();
    v
}

fn gcd(a: usize, b: usize) -> usize {
    if b == 0 { a } else { gcd(b, a % b) }
}

pub fn run_c08<A: Cx>(d: &mut Drv<A>, scale: usize, all: bool) {
    let w = A::BITS as usize;
    let noff = 64 / gcd(w, 64);
    for _ in 0..scale.max(1) {
        for st in ["usize", "u64", "u128"] {
            for k in kset::<A>(st, all) {
                let o = d.rng.below(noff);
                let n = k + 1 + d.rng.below(6);
                let t = d.rand_syms(o + n + 1);
                d.emit(json!({"op": "fromsyms", "dst": 0, "c": A::NAME, "via": "iter", "syms": t}));
                // construction: n < K, n = K, n > K, empty
                for (a, b) in [(o, o + k), (o, o + k - 1), (o, o + k + 1), (o, o), (o + 1, o + 1 + k)] {
                    d.emit(json!({"op": "kfrom", "kd": 0, "src": sl(0, a, b), "k": k, "st": st, "via": "slice"}));
                }
                // the unchecked constructor, where its precondition (exactly K symbols) holds
                d.emit(json!({"op": "kfrom", "kd": 2, "src": sl(0, o, o + k), "k": k, "st": st, "via": "unchecked"}));
                d.emit(json!({"op": "kfrom", "kd": 2, "src": sl(0, o + 1, o + 1 + k), "k": k, "st": st, "via": "unchecked"}));
                d.emit(json!({"op": "kobs", "ks": 2, "via": "view"}));
                // lengths that alias K modulo a power of two are wrong lengths too
                let longer = d.rand_syms(k + 1030);
                d.emit(json!({"op": "fromsyms", "dst": 3, "c": A::NAME, "via": "iter", "syms": longer}));
                for extra in [16usize, 32, 64, 128, 256, 1024] {
                    d.emit(json!({"op": "kfrom", "kd": 3, "src": sl(3, 1, 1 + k + extra), "k": k, "st": st, "via": "slice"}));
                }
                // texts of K CHARACTERS that are not K bytes: a character beyond Latin-1 whose low byte is a
                // symbol character (U+0141 -> 'A', U+0143 -> 'C', ...), a Latin-1 character, a 4-byte one
                {
                    let good = d.rand_text(k);
                    for (pos, ch) in [(0usize, '\u{141}'), (k - 1, '\u{143}'), (k / 2, '\u{e9}'), (0, '\u{1F9EC}'), (k - 1, '\u{4E2D}')] {
                        let mut t: Vec<u8> = Vec::new();
                        for (i, &b) in good.iter().enumerate() {
                            if i == pos {
                                let mut buf = [0u8; 4];
                                t.extend_from_slice(ch.encode_utf8(&mut buf).as_bytes());
                            } else {
                                t.push(b);
                            }
                        }
                        if good.iter().all(|b| b.is_ascii()) {
                            d.emit(json!({"op": "kparse", "kd": 3, "c": A::NAME, "k": k, "st": st, "bytes": t}));
                        }
                    }
                }
                let mut lt = d.rand_text(k + 256);
                d.emit(json!({"op": "kparse", "kd": 3, "c": A::NAME, "k": k, "st": st, "bytes": lt}));
                lt.truncate(k + 64);
                d.emit(json!({"op": "kparse", "kd": 3, "c": A::NAME, "k": k, "st": st, "bytes": lt}));
                d.emit(json!({"op": "kobs", "ks": 0, "via": "view"}));
                if st == "usize" {
                    d.emit(json!({"op": "kfrom", "kd": 1, "src": sl(0, o, o + k), "k": k, "st": st, "via": "seq"}));
                    d.emit(json!({"op": "kfrom", "kd": 1, "src": sl(0, o, o + k + 1), "k": k, "st": st, "via": "seq"}));
                    d.emit(json!({"op": "ktoseq", "dst": 1, "ks": 0}));
                    d.emit(json!({"op": "obs", "src": {"base": "kmer", "r": 0, "path": []}, "gets": [0, k - 1, k], "nths": [0, k - 1, k]}));
                    // iteration = overlapping windows of width K
                    // a partially advanced k-mer iterator finished by consumers that iterate internally
                    for _ in 0..3 {
                        let adv = d.rng.range(0, 3);
                        let consumer = *d.rng.pick(&crate::scen::c11::CONSUMERS);
                        d.emit(json!({"op": "itmix", "kind": "kmers", "x": sl(0, o, o + n), "w": k, "adv": adv, "consumer": consumer}));
                    }
                    for (a, b) in [(o, o + n), (o, o + k), (o, o + k - 1), (0, o + n + 1)] {
                        d.emit(json!({"op": "kmers", "src": sl(0, a, b), "k": k}));
                        d.emit(json!({"op": "itrun", "kind": "windows", "x": sl(0, a, b), "y": whole(0), "w": k}));
                    }
                }
                // from text: valid, invalid, wrong length, multi-byte
                let txt = d.rand_text(k);
                d.emit(json!({"op": "kparse", "kd": 2, "c": A::NAME, "k": k, "st": st, "bytes": txt}));
                let mut bad = txt.clone();
                bad[d.rng.below(k)] = *d.rng.pick(&[b'x', b'0', b' ', b'U', b'J']);
                d.emit(json!({"op": "kparse", "kd": 2, "c": A::NAME, "k": k, "st": st, "bytes": bad}));
                let mut long = txt.clone();
                long.push(txt[0]);
                d.emit(json!({"op": "kparse", "kd": 2, "c": A::NAME, "k": k, "st": st, "bytes": long}));
                if k > 1 {
                    d.emit(json!({"op": "kparse", "kd": 2, "c": A::NAME, "k": k, "st": st, "bytes": txt[..k - 1]}));
                }
                if k >= 2 {
                    // K bytes, but fewer characters
                    let mut mb = txt[..k - 2].to_vec();
                    mb.extend_from_slice("é".as_bytes());
                    d.emit(json!({"op": "kparse", "kd": 2, "c": A::NAME, "k": k, "st": st, "bytes": mb}));
                }
            }
        }
        d.reset();
    }
}

fn n32(n: u32) -> Value {
    json!([n >> 16, n & 0xffff])
}

pub fn run_c09<A: Cx>(d: &mut Drv<A>, scale: usize, all: bool) {
    let w = A::BITS as usize;
    let codes = d.codes();
    // the same packed integer held by k-mers of DIFFERENT K, operated on back to back, K ascending and
    // descending (anything remembered from one call must not leak into the next)
    if let Some(zero) = codes.iter().copied().find(|&c| c == 0) {
        let head = d.rand_syms(3);
        let ks: Vec<usize> = kset::<A>("usize", all).into_iter().filter(|&k| k >= 3).collect();
        let order: Vec<usize> = ks.iter().copied().chain(ks.iter().rev().copied()).collect();
        for k in order {
            let mut p = head.clone();
            p.resize(k, zero);
            d.emit(json!({"op": "fromsyms", "dst": 0, "c": A::NAME, "via": "iter", "syms": p}));
            d.emit(json!({"op": "kfrom", "kd": 0, "src": whole(0), "k": k, "st": "usize", "via": "slice"}));
            d.emit(json!({"op": "kop", "kd": 1, "ks": 0, "t": "rev", "via": "copy", "arg": 0}));
            d.emit(json!({"op": "kop", "kd": 2, "ks": 0, "t": "rotl", "arg": n32(1)}));
            d.emit(json!({"op": "kop", "kd": 2, "ks": 0, "t": "pushr", "arg": head[0]}));
            if A::NAME == "dna" {
                d.emit(json!({"op": "kop", "kd": 1, "ks": 0, "t": "revcomp", "via": "copy", "arg": 0}));
                d.emit(json!({"op": "kop", "kd": 1, "ks": 0, "t": "comp", "via": "copy", "arg": 0}));
            }
        }
    }
    for _ in 0..scale.max(1) {
        for st in ["usize", "u64", "u128"] {
            for k in kset::<A>(st, all) {
                // boundary patterns: all-min, all-max code, random
                let hi = *codes.iter().max().unwrap();
                let lo = *codes.iter().min().unwrap();
                let pats: Vec<Vec<u8>> = vec![d.rand_syms(k), vec![hi; k], vec![lo; k], {
                    let mut v = vec![lo; k];
                    v[k - 1] = hi;
                    v
                }];
                for p in pats {
                    d.emit(json!({"op": "fromsyms", "dst": 0, "c": A::NAME, "via": "iter", "syms": p}));
                    d.emit(json!({"op": "kfrom", "kd": 0, "src": whole(0), "k": k, "st": st, "via": "slice"}));
                    let kk = k as u32;
                    for n in [0u32, 1, kk - 1, kk, kk + 1, 2 * kk, 9 * 3307, 70_000, 65_536, 65_536 + 1, u32::MAX, u32::MAX - kk] {
                        d.emit(json!({"op": "kop", "kd": 1, "ks": 0, "t": "rotl", "arg": n32(n)}));
                        d.emit(json!({"op": "kop", "kd": 2, "ks": 0, "t": "rotr", "arg": n32(n)}));
                    }
                    // walk: pushes chained so results feed the next operation
                    d.emit(json!({"op": "kop", "kd": 3, "ks": 0, "t": "rotl", "arg": n32(0)}));
                    for _ in 0..6 {
                        let x = *d.rng.pick(&codes);
                        let t = *d.rng.pick(&["pushl", "pushr"]);
                        d.emit(json!({"op": "kop", "kd": 3, "ks": 3, "t": t, "arg": x}));
                    }
                    if d.rng.chance(1, 3) {
                        for &x in &codes {
                            d.emit(json!({"op": "kop", "kd": 4, "ks": 0, "t": "pushl", "arg": x}));
                            d.emit(json!({"op": "kop", "kd": 4, "ks": 0, "t": "pushr", "arg": x}));
                        }
                    }
                    if st == "usize" {
                        d.emit(json!({"op": "kop", "kd": 5, "ks": 0, "t": "rev", "via": "copy", "arg": 0}));
                        d.emit(json!({"op": "kop", "kd": 6, "ks": 5, "t": "rev", "via": "inplace", "arg": 0}));
                        d.emit(json!({"op": "kop", "kd": 5, "ks": 3, "t": "rev", "via": "inplace", "arg": 0}));
                        d.emit(json!({"op": "kobs", "ks": 0, "via": "view"}));
                        if A::NAME == "dna" {
                            for t in ["comp", "revcomp"] {
                                d.emit(json!({"op": "kop", "kd": 7, "ks": 0, "t": t, "via": "copy", "arg": 0}));
                                d.emit(json!({"op": "kop", "kd": 8, "ks": 7, "t": t, "via": "inplace", "arg": 0}));
                                d.emit(json!({"op": "eq", "x": {"kind": "kmer", "r": 8}, "y": {"kind": "kmer", "r": 0}}));
                            }
                            // canonical form: min(k, rc k) = min(rc k, rc rc k)
                            d.emit(json!({"op": "kop", "kd": 7, "ks": 0, "t": "revcomp", "via": "copy", "arg": 0}));
                            d.emit(json!({"op": "cmp", "x": {"kind": "kmer", "r": 0}, "y": {"kind": "kmer", "r": 7}}));
                            d.emit(json!({"op": "cmp", "x": {"kind": "kmer", "r": 7}, "y": {"kind": "kmer", "r": 0}}));
                            d.emit(json!({"op": "hash", "x": {"kind": "kmer", "r": 7}}));
                        }
                    }
                }
                let _ = w;
            }
        }
        d.reset();
    }
}

/// exhaustive: every DNA-like k-mer for small K through every operation
pub fn run_c09_exhaustive<A: Cx>(d: &mut Drv<A>, kmax: usize) {
    let codes = d.codes();
    for k in 1..=kmax {
        let total = codes.len().pow(k as u32);
        if total > 300 {
            break;
        }
        for idx in 0..total {
            let mut p = Vec::new();
            let mut x = idx;
            for _ in 0..k {
                p.push(codes[x % codes.len()]);
                x /= codes.len();
            }
            d.emit(json!({"op": "fromsyms", "dst": 0, "c": A::NAME, "via": "iter", "syms": p}));
            for st in ["usize", "u128"] {
                d.emit(json!({"op": "kfrom", "kd": 0, "src": whole(0), "k": k, "st": st, "via": "slice"}));
                for n in 0..=(k as u32 + 1) {
                    d.emit(json!({"op": "kop", "kd": 1, "ks": 0, "t": "rotl", "arg": n32(n)}));
                    d.emit(json!({"op": "kop", "kd": 1, "ks": 0, "t": "rotr", "arg": n32(n)}));
                }
                for &c in &codes {
                    d.emit(json!({"op": "kop", "kd": 1, "ks": 0, "t": "pushl", "arg": c}));
                    d.emit(json!({"op": "kop", "kd": 1, "ks": 0, "t": "pushr", "arg": c}));
                }
                if st == "usize" {
                    d.emit(json!({"op": "kop", "kd": 1, "ks": 0, "t": "rev", "via": "copy", "arg": 0}));
                    if A::NAME == "dna" {
                        d.emit(json!({"op": "kop", "kd": 1, "ks": 0, "t": "comp", "via": "copy", "arg": 0}));
                        d.emit(json!({"op": "kop", "kd": 1, "ks": 0, "t": "revcomp", "via": "inplace", "arg": 0}));
                    }
                }
            }
        }
        d.reset();
    }
}

pub fn is_ord<A: Cx>() -> bool {
    matches!(A::NAME, "dna" | "text" | "mdna" | "miupac" | "degen" | "x3" | "x7")
}

pub fn run_c10<A: Cx>(d: &mut Drv<A>, scale: usize, all: bool) {
    assert!(is_ord::<A>());
    let w = A::BITS as usize;
    let codes = d.codes();
    for _ in 0..scale.max(1) {
        for st in ["usize", "u64", "u128"] {
            for k in kset::<A>(st, all) {
                let x = d.rand_syms(k);
                // adversarial partners: differ only in the first / only in the last symbol,
                // same prefix, same suffix, equal, random
                let mut ys: Vec<Vec<u8>> = vec![x.clone(), d.rand_syms(k)];
                for pos in [0, k - 1, d.rng.below(k)] {
                    let mut y = x.clone();
                    y[pos] = *d.rng.pick(&codes);
                    ys.push(y);
                }
                if k >= 2 {
                    // first symbol says "less", last symbol says "greater"
                    let mut a = x.clone();
                    let mut b = x.clone();
                    a[0] = *codes.iter().min().unwrap();
                    b[0] = *codes.iter().max().unwrap();
                    a[k - 1] = *codes.iter().max().unwrap();
                    b[k - 1] = *codes.iter().min().unwrap();
                    ys.push(a.clone());
                    d.emit(json!({"op": "fromsyms", "dst": 2, "c": A::NAME, "via": "iter", "syms": a}));
                    d.emit(json!({"op": "fromsyms", "dst": 3, "c": A::NAME, "via": "iter", "syms": b}));
                    d.emit(json!({"op": "kfrom", "kd": 2, "src": whole(2), "k": k, "st": st, "via": "slice"}));
                    d.emit(json!({"op": "kfrom", "kd": 3, "src": whole(3), "k": k, "st": st, "via": "slice"}));
                    d.emit(json!({"op": "cmp", "x": {"kind": "kmer", "r": 2}, "y": {"kind": "kmer", "r": 3}}));
                    d.emit(json!({"op": "cmp", "x": {"kind": "seq", "src": whole(2)}, "y": {"kind": "seq", "src": whole(3)}}));
                    // a value ordered against itself
                    d.emit(json!({"op": "cmp", "x": {"kind": "kmer", "r": 2}, "y": {"kind": "kmer", "r": 2}}));
                    d.emit(json!({"op": "cmp", "x": {"kind": "seq", "src": whole(3)}, "y": {"kind": "seq", "src": whole(3)}}));
                }
                d.emit(json!({"op": "fromsyms", "dst": 0, "c": A::NAME, "via": "iter", "syms": x}));
                d.emit(json!({"op": "kfrom", "kd": 0, "src": whole(0), "k": k, "st": st, "via": "slice"}));
                for y in ys {
                    d.emit(json!({"op": "fromsyms", "dst": 1, "c": A::NAME, "via": "vec", "syms": y}));
                    d.emit(json!({"op": "kfrom", "kd": 1, "src": whole(1), "k": k, "st": st, "via": "slice"}));
                    d.emit(json!({"op": "cmp", "x": {"kind": "kmer", "r": 0}, "y": {"kind": "kmer", "r": 1}}));
                    d.emit(json!({"op": "cmp", "x": {"kind": "kmer", "r": 1}, "y": {"kind": "kmer", "r": 0}}));
                    // equal-length owned sequences order the same way
                    d.emit(json!({"op": "cmp", "x": {"kind": "seq", "src": whole(0)}, "y": {"kind": "seq", "src": whole(1)}}));
                }
            }
        }
        // minimisers over the k-mers of a sequence
        for k in kset::<A>("usize", all) {
            let n = k + d.rng.range(0, 40);
            let off = d.rng.below(9);
            let t = d.rand_syms(off + n);
            d.emit(json!({"op": "fromsyms", "dst": 4, "c": A::NAME, "via": "iter", "syms": t}));
            for (which, via) in [("min", "iter"), ("max", "iter"), ("min", "sort"), ("max", "sort")] {
                d.emit(json!({"op": "kminmax", "src": sl(4, off, off + n), "k": k, "which": which, "via": via}));
            }
        }
        // equal content reached through different histories orders as Equal (and like the parsed one)
        for _ in 0..8 {
            let n = d.rng.range(1, 3 * 64 / w + 3);
            let x = d.rand_syms(n);
            d.produce(7, &x);
            d.produce(8, &x);
            d.emit(json!({"op": "cmp", "x": {"kind": "seq", "src": whole(7)}, "y": {"kind": "seq", "src": whole(8)}}));
            let mut y = x.clone();
            let p = d.rng.below(n);
            y[p] = *d.rng.pick(&codes);
            d.produce(9, &y);
            d.emit(json!({"op": "cmp", "x": {"kind": "seq", "src": whole(7)}, "y": {"kind": "seq", "src": whole(9)}}));
            d.emit(json!({"op": "cmp", "x": {"kind": "seq", "src": whole(9)}, "y": {"kind": "seq", "src": whole(8)}}));
        }
        // longer owned sequences of equal length (beyond one word)
        for _ in 0..6 {
            let n = d.rng.range(1, 3 * 64 / w + 3);
            let x = d.rand_syms(n);
            let mut y = x.clone();
            let p = d.rng.below(n);
            y[p] = *d.rng.pick(&codes);
            if d.rng.chance(1, 2) {
                let q = d.rng.below(n);
                y[q] = *d.rng.pick(&codes);
            }
            d.emit(json!({"op": "fromsyms", "dst": 5, "c": A::NAME, "via": "iter", "syms": x}));
            d.emit(json!({"op": "fromsyms", "dst": 6, "c": A::NAME, "via": "iter", "syms": y}));
            d.emit(json!({"op": "cmp", "x": {"kind": "seq", "src": whole(5)}, "y": {"kind": "seq", "src": whole(6)}}));
            d.emit(json!({"op": "cmp", "x": {"kind": "seq", "src": whole(6)}, "y": {"kind": "seq", "src": whole(5)}}));
        }
        d.reset();
    }
}
