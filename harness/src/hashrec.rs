//! A `Hasher` that records the exact call sequence it is fed ("any hasher" may
//! distinguish `write_u8` x n from `write(&[..])`), condensed to a digest string
//! `<calls>:<fnv64 of (method tag, payload) stream>` -- equal strings <=> equal feeds.
use core::hash::{Hash, Hasher};

pub struct RecHasher {
    h: u64,
    calls: usize,
}

impl RecHasher {
    pub fn new() -> Self {
        RecHasher { h: 0xcbf2_9ce4_8422_2325, calls: 0 }
    }
    fn eat(&mut self, tag: u8, bytes: &[u8]) {
        self.calls += 1;
        let mut feed = |b: u8| {
            self.h ^= b as u64;
            self.h = self.h.wrapping_mul(0x0000_0100_0000_01b3);
        };
        feed(tag);
        feed(bytes.len() as u8);
        feed((bytes.len() >> 8) as u8);
        for &b in bytes {
            feed(b);
        }
    }
    pub fn digest(&self) -> String {
        format!("{}:{:016x}", self.calls, self.h)
    }
}

impl Hasher for RecHasher {
    fn finish(&self) -> u64 {
        self.h
    }
    fn write(&mut self, bytes: &[u8]) {
        self.eat(b'w', bytes)
    }
    fn write_u8(&mut self, i: u8) {
        self.eat(1, &i.to_le_bytes())
    }
    fn write_u16(&mut self, i: u16) {
        self.eat(2, &i.to_le_bytes())
    }
    fn write_u32(&mut self, i: u32) {
        self.eat(3, &i.to_le_bytes())
    }
    fn write_u64(&mut self, i: u64) {
        self.eat(4, &i.to_le_bytes())
    }
    fn write_u128(&mut self, i: u128) {
        self.eat(5, &i.to_le_bytes())
    }
    fn write_usize(&mut self, i: usize) {
        self.eat(6, &i.to_le_bytes())
    }
    fn write_i8(&mut self, i: i8) {
        self.eat(7, &i.to_le_bytes())
    }
    fn write_i16(&mut self, i: i16) {
        self.eat(8, &i.to_le_bytes())
    }
    fn write_i32(&mut self, i: i32) {
        self.eat(9, &i.to_le_bytes())
    }
    fn write_i64(&mut self, i: i64) {
        self.eat(10, &i.to_le_bytes())
    }
    fn write_i128(&mut self, i: i128) {
        self.eat(11, &i.to_le_bytes())
    }
    fn write_isize(&mut self, i: isize) {
        self.eat(12, &i.to_le_bytes())
    }
}

pub fn feed_of<T: Hash + ?Sized>(x: &T) -> String {
    let mut h = RecHasher::new();
    x.hash(&mut h);
    h.digest()
}
