"""What each property's check runs.  traces: (scenario, (quick scale, thorough scale));
None = not in that tier.  mc: MC_* configurations.  gen: spec -> impl generators."""

# "x3" / "x7": codecs derived in the harness (widths 3 and 7), specified in spec/Codecs.tla
CODECS = ["dna", "iupac", "amino", "text", "mdna", "miupac", "degen", "x3", "x7"]
BUILTIN = ["dna", "iupac", "amino", "text", "mdna", "miupac", "degen"]
ORD = ["dna", "text", "mdna", "miupac", "degen", "x3", "x7"]

# which property owns the observation of which operation (used by whole-machine generators: a
# divergence at step i of a mixed walk is reported by the property owning step i's operation only)
OWNER = {
    "parse": "C01", "lit": "C01", "str": "C01",
    "eq": "C02", "hash": "C02", "mapget": "C02",
    "obs": "C03",
    "toint": "C04", "tointtake": "C04", "intoraw": "C04", "fromraw": "C04", "kfromint": "C04",
    "fromsyms": "C06", "new": "C06", "push": "C06", "extend": "C06", "clear": "C06", "truncate": "C06",
    "append": "C06", "prepend": "C06", "insert": "C06", "remove": "C06", "clone": "C06", "toowned": "C06",
    "inplace": "C07", "copying": "C07",
    "kfrom": "C08", "kparse": "C08", "kmers": "C08", "ktoseq": "C08", "kobs": "C08",
    "kop": "C09",
    "cmp": "C10", "kminmax": "C10",
    "itnew": "C11", "itnext": "C11", "itrun": "C11", "itmix": "C11",
    "bitop": "C12", "contains": "C12",
    "toamino": "C13", "trytoamino": "C14", "trytocodon": "C14",
    "tablenew": "C15", "tableamino": "C15", "tablecodon": "C15",
    "serde": "C18", "kserde": "C18",
    "convert": "C19", "trim": "C19", "textbase": "C19",
}

# the whole-machine random-walk generator (spec/Gen_SYS.tla): (walks per worker, depth)
def SYS(num):
    return ("Gen_SYS", "Gen_SYS.cfg", dict(simulate=(num, 20), owned=True))


PLAN = {
    "C01": dict(
        tlaps=dict(quick=["TransformLaws"]),
        gen=dict(quick=[("Gen_C01", "Gen_C01.cfg"), SYS(25)], thorough=[("Gen_C01", "Gen_C01_T.cfg"), SYS(400)]),
        traces=[("sweep_c01", (1, 2)), ("long_c01", (1, 2)), ("c01", (1, 6)), ("c01x", (None, 1))],
        seeds=dict(quick=1, thorough=6), seeded={"c01x": False},
        mc=dict(quick=["MC_C01"]),
        rule="parse events through the 7 entry points x 7 codecs x word-boundary lengths x "
             "{valid, one/two/all bad bytes, non-ASCII, case twin}; distinct = distinct event lines, "
             "non-trivial = some sequence involved is non-empty",
    ),
    "C02": dict(
        tlaps=dict(thorough=["ColexNumeric"]),
        gen=dict(quick=[SYS(25)], thorough=[SYS(400)]),
        traces=[("sweep_c02", (1, 2)), ("long_c02", (1, 2)), ("c02", (1, None)), ("c02all", (None, 4)), ("giant_c02", (None, 1)), ("c02alt", (1, 1))],
        codecs={"c02alt": ["mdna", "amino", "x3"], "giant_c02": ["iupac", "miupac"]},
        seeds=dict(quick=1, thorough=5), seeded={"c02alt": False, "giant_c02": False},
        mc=dict(quick=["MC_C02"]),
        rule="eq / hash / mapget events over content pairs {equal, one symbol changed first/last/random, "
             "prefix, suffix, empty, +1} in every representation (Seq, &Seq, SeqSlice, &SeqSlice at offsets, "
             "static literal, SeqArray, Kmer on usize/u64/u128, &str); distinct event lines with non-empty operands",
    ),
    "C03": dict(
        tlaps=dict(quick=["SliceLaws"]),
        traces=[("sweep_c03", (1, 2)), ("long_c03", (1, 2)), ("c03", (2, 12)), ("giant_c03", (None, 1))],
        codecs={"giant_c03": ["iupac", "miupac"]},
        seeds=dict(quick=1, thorough=6), seeded={"giant_c03": False},
        mc=dict(quick=["MC_C03", "MC_GIANT"]),
        gen=dict(quick=[("Gen_C03", "Gen_C03.cfg"), SYS(25)], thorough=[("Gen_C03", "Gen_C03_T.cfg"), SYS(400)]),
        rule="obs events over nested range expressions (7 forms, depth <= 3) on owned / literal / k-mer parents of "
             "word-boundary lengths incl. steps just past the end; TLC-enumerated expressions replayed",
    ),
    "C04": dict(
        tlaps=dict(thorough=["ColexNumeric"]),
        gen=dict(quick=[SYS(25)], thorough=[SYS(400)]),
        traces=[("sweep_c04", (1, 2)), ("long_c04", (1, 2)), ("c04", (2, None)), ("c04all", (None, 4)), ("giant_c04", (None, 1))],
        codecs={"giant_c04": ["iupac", "miupac"]},
        seeds=dict(quick=1, thorough=6), seeded={"giant_c04": False},
        mc=dict(quick=["MC_C04"]),
        rule="toint / kfromint / intoraw / fromraw events: slices at offsets with K*BITS <=/> 64, images of "
             "sequences produced by parse / collect / offset copy / rev / comp / bitwise / edits, every count",
    ),
    "C05": dict(
        traces=[("c05", (1, 1)), ("c05multi", (1, 1))], seeded={"c05": False, "c05multi": False},
        codecs={"c05": CODECS, "c05multi": CODECS},
        mc=dict(quick=["MC_C05"]),
        exhaustive=True,
        rule="one cell event per (codec, byte) for all 9 x 256 cells (seven built-in codecs, two derived in the harness) "
             "in canonical order (a skipped cell is a rejection) plus one codecinfo event per codec; both build profiles; "
             "finite domain enumerated completely",
    ),
    "C06": dict(
        tlaps=dict(quick=["EditLaws"]),
        traces=[("sweep_c06", (1, 2)), ("long_c06", (1, 2)), ("c06", (400, 3000)), ("giant_c06", (None, 1))],
        codecs={"giant_c06": ["iupac", "miupac"]},
        seeds=dict(quick=1, thorough=5), seeded={"giant_c06": False},
        mc=dict(quick=["MC_C06", "MC_SYS"]),
        gen=dict(quick=[("Gen_C06", "Gen_C06.cfg"), SYS(25)], thorough=[("Gen_C06", "Gen_C06_T.cfg"), ("Gen_C06", "Gen_C06_T3.cfg"), SYS(400)]),
        rule="random edit histories (push/extend/append/prepend/insert/remove/truncate/clear/clone/to_owned) on 6 "
             "registers with argument slices at random offsets, full view logged after every step; TLC-enumerated "
             "histories of depth <= 3 replayed",
    ),
    "C07": dict(
        tlaps=dict(quick=["TransformLaws"]),
        gen=dict(quick=[("Gen_C07", "Gen_C07.cfg"), SYS(25)], thorough=[("Gen_C07", "Gen_C07_T.cfg"), SYS(400)]),
        traces=[("sweep_c07", (1, 2)), ("long_c07", (1, 2)), ("c07", (1, None)), ("c07all", (None, 1)), ("giant_c07", (None, 1))],
        codecs={"giant_c07": ["iupac", "miupac"]},
        seeds=dict(quick=1, thorough=5), seeded={"giant_c07": False},
        mc=dict(quick=["MC_C07"]),
        rule="copying / inplace transform events (rev, comp, revcomp) on slices at offsets x word-boundary lengths, "
             "compositions and receiver re-observation",
    ),
    "C08": dict(
        tlaps=dict(quick=["WindowLaws"]),
        gen=dict(quick=[SYS(25)], thorough=[SYS(400)]),
        traces=[("sweep_c08", (1, 2)), ("c08", (1, None)), ("c08all", (None, 1)), ("giant_c08", (None, 1))],
        codecs={"giant_c08": ["iupac", "miupac"]},
        seeds=dict(quick=1, thorough=5), seeded={"giant_c08": False},
        mc=dict(quick=["MC_C08"]),
        rule="kfrom / kparse / kmers / ktoseq / deref events for boundary K (quick) or every instantiated K "
             "(thorough) x usize/u64/u128 x slices at offsets x n<K, n=K, n>K",
    ),
    "C09": dict(
        tlaps=dict(quick=["KmerLaws"]),
        gen=dict(quick=[("Gen_C09", "Gen_C09.cfg"), SYS(25)], thorough=[("Gen_C09", "Gen_C09_T.cfg"), SYS(400)]),
        traces=[("c09", (1, None)), ("c09all", (None, 1)), ("c09x", (2, 4))],
        seeds=dict(quick=1, thorough=5), seeded={"c09x": False},
        mc=dict(quick=["MC_C09"]),
        rule="kop events (rotl/rotr by 0..2K, 65536+r, u32::MAX; pushl/pushr of every symbol; rev; comp; revcomp) "
             "on boundary patterns for every K x storage; exhaustive over all k-mers for small K",
    ),
    "C10": dict(
        tlaps=dict(thorough=["ColexNumeric"]),
        gen=dict(quick=[SYS(25)], thorough=[SYS(400)]),
        traces=[("sweep_c10", (1, 2)), ("long_c10", (1, 2)), ("c10", (1, None)), ("c10all", (None, 2))],
        codecs={"sweep_c10": ORD, "long_c10": ORD, "c10": ORD, "c10all": ORD},
        seeds=dict(quick=1, thorough=6),
        mc=dict(quick=["MC_C10"]),
        rule="cmp events on adversarial k-mer pairs (differ only first / only last, first-says-less-last-says-greater) "
             "for every K x storage, min/max/sort minimisers, equal-length owned sequences; codecs that are Ord",
    ),
    "C11": dict(
        tlaps=dict(quick=["WindowLaws"]),
        apalache=dict(thorough=["ChunksInd"]),
        traces=[("sweep_c11", (1, 2)), ("long_c11", (1, 2)), ("c11", (1, None)), ("c11all", (None, 2)), ("giant_c11", (None, 1))],
        codecs={"giant_c11": ["iupac", "miupac"]},
        seeds=dict(quick=1, thorough=5), seeded={"giant_c11": False},
        mc=dict(quick=["MC_C11"]),
        gen=dict(quick=[("Gen_C11", "Gen_C11.cfg"), SYS(25)], thorough=[("Gen_C11", "Gen_C11_T.cfg"), SYS(400)]),
        rule="itrun events (iter, into_iter, rev, windows, chunks, chain) with widths 1..n+2 on slices at offsets, "
             "plus step-wise itnew/itnext interleavings (the iterator state machine)",
    ),
    "C12": dict(
        tlaps=dict(quick=["SetAlgebraLaws"]),
        gen=dict(quick=[("Gen_C12", "Gen_C12.cfg"), SYS(25)], thorough=[("Gen_C12", "Gen_C12_T.cfg"), SYS(400)]),
        traces=[("sweep_c12", (1, 2)), ("long_c12", (1, 2)), ("c12", (1, None)), ("c12all", (None, 1)), ("c12dna", (1, 1))],
        codecs={"sweep_c12": ["iupac"], "long_c12": ["iupac"], "c12": ["iupac"], "c12all": ["iupac"], "c12dna": ["dna"]},
        seeds=dict(quick=1, thorough=5),
        mc=dict(quick=["MC_C12"]),
        rule="bitop / contains events: operands laid out so all 256 symbol pairs meet, at independent nibble "
             "offsets (6 pairs quick, all 16x16 thorough), borrowed and owned forms, all receiver kinds, length "
             "mismatches +-1, +-2",
    ),
    "C13": dict(
        gen=dict(quick=[("Gen_C13", "Gen_C13.cfg"), SYS(25)], thorough=[("Gen_C13", "Gen_C13.cfg"), SYS(400)]),
        traces=[("sweep_c13", (1, 2)), ("long_c13", (1, 2)), ("c13", (30, 300))],
        codecs={"sweep_c13": ["dna"], "long_c13": ["dna"], "c13": ["dna"]},
        seeds=dict(quick=1, thorough=6),
        mc=dict(quick=["MC_C13"]),
        exhaustive=True,
        rule="toamino events: all 64 codons x all 32 bit offsets (2048 cases, enumerated completely) plus random "
             "sequences by windows(3)/chunks(3) and wrong-length codons",
    ),
    "C14": dict(
        gen=dict(quick=[("Gen_C14", "Gen_C14.cfg"), SYS(25)], thorough=[("Gen_C14", "Gen_C14_T.cfg"), SYS(400)]),
        traces=[("c14", (1, None)), ("c14all", (None, 1)), ("c14order", (1, 1))],
        codecs={"c14": ["iupac"], "c14all": ["iupac"], "c14order": ["iupac"]}, seeded={"c14": False, "c14all": False, "c14order": False},
        mc=dict(quick=["MC_C14"]),
        exhaustive=True,
        rule="trytoamino events for all 16^3 IUPAC codons x slice offsets {0, 14} (quick) / all 16 (thorough), "
             "lengths 0,1,2,4,5, trytocodon for all 21 residues and back; finite domain enumerated completely",
    ),
    "C15": dict(
        tlaps=dict(quick=["TableFoldProof"]),
        gen=dict(quick=[("Gen_C15", "Gen_C15.cfg")]),
        traces=[("c15", (24, 200))],
        codecs={"c15": CODECS},
        seeds=dict(quick=1, thorough=8),
        mc=dict(quick=["MC_C15"]),
        rule="tablenew / tableamino / tablecodon events: random maps over codons of length 1..4 with 0/1/2/3+ "
             "preimages, each table built 4x (fresh hash order), queries as slices at offsets",
    ),
    "C16": dict(
        programs=dict(quick=["literals"]),
        mc=dict(quick=["MC_C16"]),
        rule="generated programs: every valid literal (lengths 0..257 incl. 15/16/17, 31/32/33, 63..65, 127..129, "
             "alphabet rotated) is one macro expansion logging value/eq/hash vs runtime parsing; every invalid literal "
             "(one offending character first/middle/last: lower case, N/U/X, digit, blank, newline, multi-byte UTF-8) is "
             "one bin target that must not compile, with a valid twin that must; dev and release",
        assumptions=["rustc's accept/reject verdict on a generated program is taken as observed (TLC never sees inside the compiler)"],
    ),
    "C17": dict(
        programs=dict(quick=["derives"]),
        mc=dict(quick=["MC_C17"]),
        rule="generated programs: seeded enum declarations (2..40 variants, discriminants 0..255 as decimal/binary/hex/byte "
             "literals, optional #[alt], #[display], #[bits]) always including max discriminant in {1,2,3,4,7,8,127,128,254,255}; "
             "each logs BITS, both decoders over all 256 bytes, items, characters and a Seq round trip; malformed declarations "
             "must not compile, each with a valid twin; dev and release",
        assumptions=["rustc's accept/reject verdict on a generated program is taken as observed (TLC never sees inside the compiler)"],
    ),
    "C18": dict(
        tlaps=dict(quick=["TransformLaws"]),
        gen=dict(quick=[SYS(25)], thorough=[SYS(400)]),
        traces=[("sweep_c18", (1, 2)), ("long_c18", (1, 2)), ("c18", (6, None)), ("c18all", (None, 12))],
        seeds=dict(quick=1, thorough=6),
        mc=dict(quick=["MC_C06"]),
        rule="serde / kserde events (json + bincode) on sequences with histories (with_capacity, offset copies, "
             "reversal, removals) and on k-mers of boundary / every K and storage",
    ),
    "C19": dict(
        gen=dict(quick=[("Gen_C19", "Gen_C19.cfg"), SYS(25)], thorough=[("Gen_C19", "Gen_C19_T.cfg"), SYS(400)]),
        traces=[("sweep_c19", (1, 2)), ("long_c19", (1, 2)), ("c19conv", (2, 10)), ("c19trim", (5, 6))],
        codecs={"sweep_c19": ["dna"], "long_c19": ["dna"], "c19conv": ["dna"]},
        seeds=dict(quick=1, thorough=6),
        mc=dict(quick=["MC_C19"]),
        rule="convert events (dna->iupac/text from slices, literals, SeqArray by ref and by value), textbase for "
             "all 256 bytes, trim for all strings of length <= 5 (quick) / 6 (thorough) over 2 good + 2 bad bytes "
             "plus random long inputs",
    ),
    "C20": dict(
        tlaps=dict(quick=["TransformLaws"]),
        gen=dict(quick=[("Gen_C07", "Gen_C20.cfg")]),
        traces=[("sweep_c20", (1, 2)), ("long_c20", (1, 2)), ("c20", (1, None)), ("c20all", (None, 1))],
        codecs={"sweep_c20": ["mdna", "miupac"], "long_c20": ["mdna", "miupac"], "c20": ["mdna", "miupac"], "c20all": ["mdna", "miupac"]},
        seeds=dict(quick=1, thorough=5),
        mc=dict(quick=["MC_C20"]),
        rule="mask / unmask copying and in-place events composed with rev / comp / revcomp on sequences with "
             "5-bit symbols at positions 12, 25, 38, 51 (mod 64)",
    ),
}
