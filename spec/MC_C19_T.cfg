SPECIFICATION MCSpec
CONSTANTS
    NR = 2
    NK = 1
    NT = 1
    NI = 1
    MaxLen = 4
VIEW MCView
INVARIANT TypeOK
CHECK_DEADLOCK FALSE
