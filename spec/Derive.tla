------------------------------- MODULE Derive -------------------------------
(***************************************************************************)
(* Meaning of the program-level features (C16, C17):                       *)
(*   * the literal macros dna! / iupac! / kmer!                            *)
(*   * #[derive(Codec)] on an enum declaration                             *)
(* A declaration is a record                                               *)
(*   [bits |-> declared width or -1,                                       *)
(*    variants |-> << [ch |-> display byte, disc |-> discriminant,         *)
(*                     alts |-> <<alternative bit patterns>>] , ... >>]    *)
(* where ch is the #[display] character or, by default, the first letter   *)
(* of the variant's name.                                                  *)
(***************************************************************************)
EXTENDS Mech

(***************************************************************************)
(* Literals                                                                *)
(***************************************************************************)
LitAlphabet(macro) == IF macro = "iupac" THEN IupacLitAlphabet ELSE DnaLitAlphabet
LitCodec(macro) == IF macro = "iupac" THEN "iupac" ELSE "dna"

\* a literal compiles iff every character is ASCII and in the macro's alphabet
LitCompiles(macro, bytes) == \A i \in 1 .. Len(bytes) : bytes[i] < 128 /\ bytes[i] \in LitAlphabet(macro)

\* the value of a literal: the macro's alphabet read as symbols (X is the IUPAC gap)
LitSym(macro, ch) ==
    IF macro = "iupac" /\ ch = chX THEN 0 ELSE FromAscii(LitCodec(macro), ch)
LitValue(macro, bytes) == [i \in 1 .. Len(bytes) |-> LitSym(macro, bytes[i])]

\* ... which is what runtime parsing gives wherever the runtime parser accepts the text
LitAgreesWithParse(macro, bytes) ==
    ParseRes(LitCodec(macro), bytes).ok => ParseRes(LitCodec(macro), bytes).syms = LitValue(macro, bytes)

\* mechanism: the macro crate's per-character bit lists, concatenated
RECURSIVE M_LitBitsFrom(_, _, _)
M_LitBitsFrom(macro, bytes, i) ==
    IF i > Len(bytes) THEN <<>>
    ELSE (IF macro = "iupac" THEN M_IupacLitChar(bytes[i]) ELSE M_DnaLitChar(bytes[i]))
         \o M_LitBitsFrom(macro, bytes, i + 1)
M_LitBits(macro, bytes) == M_LitBitsFrom(macro, bytes, 1)
M_LitWords(macro, bytes) == WordsFor(Len(M_LitBits(macro, bytes)))

(***************************************************************************)
(* Derived codecs                                                          *)
(***************************************************************************)
MaxDisc(decl) == Max({decl.variants[i].disc : i \in 1 .. Len(decl.variants)})

DeclWidth(decl) == IF decl.bits >= 0 THEN decl.bits ELSE LeastWidth(MaxDisc(decl))

\* a declaration the derive must honour
DeclWellFormed(decl) ==
    /\ Len(decl.variants) >= 1
    /\ \A i \in 1 .. Len(decl.variants) : decl.variants[i].disc \in 0 .. 255
    /\ \A i, j \in 1 .. Len(decl.variants) : i # j => decl.variants[i].disc # decl.variants[j].disc   \* Rust itself demands it
    /\ decl.bits >= 0 => decl.bits >= LeastWidth(MaxDisc(decl))

VariantOfPattern(decl, p) ==
    {i \in 1 .. Len(decl.variants) :
        decl.variants[i].disc = p \/ \E j \in 1 .. Len(decl.variants[i].alts) : decl.variants[i].alts[j] = p}
VariantOfChar(decl, b) == {i \in 1 .. Len(decl.variants) : decl.variants[i].ch = b}

\* everything a derived codec answers
DeriveExpected(decl) ==
    [bits |-> DeclWidth(decl),
     tfb |-> [p \in 0 .. 255 |->
                 IF VariantOfPattern(decl, p) = {} THEN NoSym
                 ELSE decl.variants[Min(VariantOfPattern(decl, p))].disc],
     tfa |-> [b \in 0 .. 255 |->
                 IF VariantOfChar(decl, b) = {} THEN NoSym
                 ELSE decl.variants[Min(VariantOfChar(decl, b))].disc],
     unsafe_agree |-> TRUE,
     codes |-> [i \in 1 .. Len(decl.variants) |-> decl.variants[i].disc],     \* items(): declaration order, to_bits
     chars |-> [i \in 1 .. Len(decl.variants) |-> decl.variants[i].ch],       \* to_char
     roundtrip |-> [i \in 1 .. Len(decl.variants) |-> decl.variants[i].ch]]   \* display(parse(all chars))

\* functions over 0..255 are logged as 256-element arrays
AsArray(f) == [i \in 1 .. 256 |-> f[i - 1]]
DeriveObs(decl) ==
    LET e == DeriveExpected(decl)
    IN  [e EXCEPT !.tfb = AsArray(e.tfb), !.tfa = AsArray(e.tfa)]
=============================================================================
