SPECIFICATION GSpec
CONSTANTS
    NR = 1
    NK = 1
    NT = 1
    NI = 1
    GenCodecs = {"dna", "iupac"}
INVARIANT Emit
INVARIANT OrderIndependent
VIEW FoldView
CHECK_DEADLOCK FALSE
