SPECIFICATION MCSpec
CONSTANTS
    NR = 1
    NK = 1
    NT = 1
    NI = 1
    MaxLen = 4
    Depth = 2
VIEW MCView
INVARIANT TypeOK
CHECK_DEADLOCK FALSE
