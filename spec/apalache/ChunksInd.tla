----------------------------- MODULE ChunksInd -----------------------------
(***************************************************************************)
(* Unbounded check (Apalache, inductive invariant) of the window / chunk   *)
(* iterator ALGORITHM as the implementation writes it (SeqChunks::next):   *)
(*                                                                         *)
(*     if index + width > len { return None }                              *)
(*     i = index; index += skip; Some(slice[i .. i + width])               *)
(*                                                                         *)
(* for EVERY length N >= 0 and width Wd >= 1, with skip = 1 (windows) or   *)
(* skip = Wd (chunks): the k-th item starts at (k-1)*skip, every item lies *)
(* inside the sequence, and when the iterator reports exhaustion exactly   *)
(* the expected number of items has been handed out (N-Wd+1 windows, none  *)
(* when Wd > N; floor(N/Wd) chunks).  At most N+1 calls are ever needed.   *)
(* TLC checks the same machine on bounded instances inside BioSeq; this    *)
(* module lifts the counting argument to all sizes.                        *)
(***************************************************************************)
EXTENDS Integers

CONSTANTS
    \* @type: Int;
    N,
    \* @type: Int;
    Wd,
    \* @type: Bool;
    Chunks

VARIABLES
    \* @type: Int;
    index,
    \* @type: Int;
    yielded,
    \* @type: Int;
    start,
    \* @type: Bool;
    done

Skip == IF Chunks THEN Wd ELSE 1

ConstInit == N \in Int /\ Wd \in Int /\ Chunks \in BOOLEAN /\ N >= 0 /\ Wd >= 1

Init == index = 0 /\ yielded = 0 /\ start = 0 /\ done = FALSE

NextItem ==
    /\ ~done
    /\ IF index + Wd > N
       THEN done' = TRUE /\ UNCHANGED <<index, yielded, start>>
       ELSE /\ start' = index
            /\ index' = index + Skip
            /\ yielded' = yielded + 1
            /\ done' = FALSE

Stutter == done /\ UNCHANGED <<index, yielded, start, done>>
Next == NextItem \/ Stutter

Expected == IF Wd > N THEN 0 ELSE IF Chunks THEN N \div Wd ELSE N - Wd + 1

\* the inductive invariant
IndInv ==
    /\ yielded >= 0 /\ index >= 0
    /\ index = yielded * Skip                               \* the k-th item starts at (k-1)*skip
    /\ (yielded > 0 => start = index - Skip /\ start + Wd <= N)   \* every item lies inside the sequence
    /\ (done => index + Wd > N)
    /\ yielded <= N                                         \* hence at most N+1 calls
    /\ (yielded > 0 => (yielded - 1) * Skip + Wd <= N)

\* what the property states
Exact == done => yielded = Expected
Inside == yielded > 0 => (start >= 0 /\ start + Wd <= N)
Safety == Exact /\ Inside

IndInit == index \in Int /\ yielded \in Int /\ start \in Int /\ done \in BOOLEAN /\ IndInv
=============================================================================
