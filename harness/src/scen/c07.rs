//! C07 / C20: reverse, complement, reverse-complement, mask, unmask -- copying
//! forms on slices at every offset and on owned sequences, in-place forms on
//! copies, receivers re-observed unchanged, compositions.
use crate::cx::Cx;
use crate::drv::{boundary_lens, sl, whole, Drv};
use serde_json::json;

pub fn transforms<A: Cx>() -> Vec<&'static str> {
    let mut t = vec!["rev"];
    if matches!(A::NAME, "dna" | "iupac" | "mdna" | "miupac" | "degen" | "x3") {
        t.push("comp");
        t.push("revcomp");
    }
    t
}

pub fn run<A: Cx>(d: &mut Drv<A>, scale: usize, all_offsets: bool, masking: bool) {
    let w = A::BITS as usize;
    let noff = 64 / gcd(w, 64);
    let mut ts = transforms::<A>();
    if masking {
        assert!(matches!(A::NAME, "mdna" | "miupac"));
        ts.push("mask");
        ts.push("unmask");
    }
    let lens = boundary_lens(w);
    // sequences that STORE alternative bit patterns (only a raw image gets them in): every symbol is
    // transformed as the symbol it is, whatever pattern holds it
    if !d.alt_patterns().is_empty() {
        // (whether such a value is == to the sequence rebuilt from its symbols is the known finding D12 and
        // belongs to C02's tagged scenario: the structural-equality part of the view is off in this block)
        d.nocanon = true;
        let all = d.patterns();
        let alts = d.alt_patterns();
        for n in [1usize, 3, 64 / w, 64 / w + 1, 2 * 64 / w + 3] {
            let pats: Vec<u8> = (0..n).map(|i| if i % 2 == 0 { *d.rng.pick(&alts) } else { *d.rng.pick(&all) }).collect();
            d.from_patterns(0, &pats);
            for &tf in &ts {
                d.emit(json!({"op": "copying", "dst": 2, "src": whole(0), "t": tf, "via": "seq"}));
                d.emit(json!({"op": "copying", "dst": 3, "src": sl(0, n / 3, n), "t": tf, "via": "slice"}));
                d.emit(json!({"op": "clone", "dst": 4, "r": 0}));
                d.emit(json!({"op": "inplace", "dst": 4, "t": tf}));
                d.emit(json!({"op": "inplace", "dst": 4, "t": tf}));
            }
            d.obs(whole(0));
        }
        d.nocanon = false;
    }
    for _ in 0..scale.max(1) {
        for &n in &lens {
            let offs: Vec<usize> = if all_offsets {
                (0..noff).collect()
            } else if masking && w == 5 {
                // 5-bit symbols straddling 64-bit words: positions 12, 25, 38, 51 (mod 64)
                vec![0, 12, 25 - (n.min(3)), 38, 51, d.rng.below(64)]
            } else {
                vec![0, 1, noff - 1, d.rng.below(noff)]
            };
            for &o in &offs {
                let mut t = if masking && A::NAME == "mdna" {
                    // the documented part of masked DNA: A,C,G,T,N in both cases, gap, pad
                    (0..o + n + 2).map(|_| crate::world::sym::<A>(0).to_bits()).collect::<Vec<u8>>()
                } else {
                    d.rand_syms(o + n + 2)
                };
                if masking && A::NAME == "mdna" {
                    let spoken: Vec<u8> = b"ACGTNacgtn-.".iter().map(|&c| A::try_from_ascii(c).unwrap().to_bits()).collect();
                    for x in t.iter_mut() {
                        *x = *d.rng.pick(&spoken);
                    }
                }
                d.emit(json!({"op": "fromsyms", "dst": 0, "c": A::NAME, "via": "iter", "syms": t}));
                let src = sl(0, o, o + n);
                d.emit(json!({"op": "toowned", "dst": 1, "src": src.clone(), "via": "to_owned"}));
                for &tf in &ts {
                    // copying form on the borrowed slice and on the owned copy: same answer
                    d.emit(json!({"op": "copying", "dst": 2, "src": src.clone(), "t": tf, "via": "slice"}));
                    d.emit(json!({"op": "copying", "dst": 3, "src": whole(1), "t": tf, "via": "seq"}));
                    // in-place form applied to a copy
                    d.emit(json!({"op": "clone", "dst": 4, "r": 1}));
                    d.emit(json!({"op": "inplace", "dst": 4, "t": tf}));
                    d.emit(json!({"op": "eq", "x": {"kind": "seq", "src": whole(2)}, "y": {"kind": "seq", "src": whole(4)}}));
                    // twice restores (rev / comp / revcomp) or is idempotent (mask / unmask): the spec knows
                    d.emit(json!({"op": "inplace", "dst": 4, "t": tf}));
                    // composition with a second transform
                    let t2 = *d.rng.pick(&ts);
                    d.emit(json!({"op": "copying", "dst": 5, "src": whole(2), "t": t2, "via": "seq"}));
                    d.emit(json!({"op": "inplace", "dst": 2, "t": t2}));
                }
                // copying forms whose receiver is a static literal / the slice a k-mer dereferences to
                if o == offs[0] {
                    let (fs, _) = d.foreign_src();
                    for &tf in &ts {
                        d.emit(json!({"op": "copying", "dst": 6, "src": fs.clone(), "t": tf, "via": "slice"}));
                    }
                    d.obs(fs);
                }
                // receivers untouched
                d.obs(whole(1));
                d.obs(src.clone());
            }
        }
        d.reset();
    }
}

fn gcd(a: usize, b: usize) -> usize {
    if b == 0 { a } else { gcd(b, a % b) }
}
