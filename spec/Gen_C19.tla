------------------------------- MODULE Gen_C19 -------------------------------
(* Spec -> implementation for C19: trimming of EVERY byte string of length      *)
(* <= MaxLen over two acceptable and two unacceptable bytes, for every codec.    *)
EXTENDS MCBase, Json
CONSTANTS MaxLen, GenCodecs

VARIABLE hist
gvars == <<vars, hist>>
Ev(rec) == hist' = Append(hist, rec @@ [obs |-> out'])
Alpha(c) == {Items(c)[1].ch, Items(c)[Len(Items(c))].ch, 35, 122}

GInit == Init /\ hist = <<>>
Do ==
    /\ Len(hist) = 0
    /\ \E c \in GenCodecs : \E v \in SeqsUpTo(Alpha(c), MaxLen) :
          Trim(0, c, v) /\ Ev([op |-> "trim", dst |-> 0, c |-> c, bytes |-> v])
GNext == Do
GSpec == GInit /\ [][GNext]_gvars
Emit == (Len(hist) = 1) => PrintT(<<"REPLAY", ToJson(hist)>>)
=============================================================================
