mod custom;
mod cx;
mod drv;
mod giant;
mod hashrec;
mod kd;
mod lits;
mod rng;
mod scen;
mod special;
mod world;

use std::io::Write;

fn usage() -> ! {
    eprintln!("usage: bsx drive <scenario> <codec> <seed> <scale> <out.ndjson>");
    eprintln!("       bsx rerun <codec> <ops.ndjson> <out.ndjson> [scenario]");
    eprintln!("       bsx replay <behaviours.ndjson|-> <violations.ndjson>");
    std::process::exit(2)
}

fn main() {
    // panics of the code under test are data, not noise
    std::panic::set_hook(Box::new(|_| {}));
    let args: Vec<String> = std::env::args().collect();
    if args.len() < 2 {
        usage();
    }
    match args[1].as_str() {
        "drive" => {
            if args.len() != 7 {
                usage();
            }
            let scen = args[2].as_str();
            let codec = args[3].as_str();
            let seed: u64 = args[4].parse().unwrap();
            let scale: usize = args[5].parse().unwrap();
            if scen == "c05multi" {
                // every codec's tables in ONE process, starting with `codec` and continuing in rotated
                // order (twice): state shared between codecs (statics, lazily built tables) would show
                let all = &cx::CODECS[..]; // the built-in codecs and the two derived in the harness
                let first = all.iter().position(|c| *c == codec).expect("codec");
                let mut f = std::io::BufWriter::new(std::fs::File::create(&args[6]).unwrap());
                let mut n = 0;
                for round in 0..2 {
                    for i in 0..all.len() {
                        let name = if round == 0 { all[(first + i) % all.len()] } else { all[(first + all.len() - i) % all.len()] };
                        let lines = with_codec!(name, A => scen::c05::cells::<A>());
                        for l in &lines {
                            writeln!(f, "{l}").unwrap();
                        }
                        n += lines.len();
                    }
                }
                println!("{n}");
                return;
            }
            world::CANON.store(world::canon_scenario(scen), std::sync::atomic::Ordering::Relaxed);
            // lines are streamed to the file as they are produced (a crash leaves the prefix behind)
            let lines = with_codec!(codec, A => scen::run::<A>(scen, seed, scale, Some(args[6].as_str())));
            let _ = std::fs::remove_file(format!("{}.intent", args[6]));
            println!("{}", lines.len());
        }
        "replay" => {
            // spec -> impl: execute TLC-generated behaviours, compare with the spec's `out` step by step
            if args.len() != 4 {
                usage();
            }
            let rd: Box<dyn std::io::BufRead> = if args[2] == "-" {
                Box::new(std::io::BufReader::new(std::io::stdin()))
            } else {
                Box::new(std::io::BufReader::new(std::fs::File::open(&args[2]).unwrap()))
            };
            let mut vf = std::io::BufWriter::new(std::fs::File::create(&args[3]).unwrap());
            let (mut nb, mut ne, mut nm) = (0usize, 0usize, 0usize);
            // mismatches per operation name: the first few of EVERY operation are written out, so that
            // the caller can attribute each divergence to the property that owns the operation
            let mut per_op: std::collections::BTreeMap<String, usize> = std::collections::BTreeMap::new();
            let mut distinct = std::collections::HashSet::new();
            let mut samples: Vec<serde_json::Value> = Vec::new();
            for line in std::io::BufRead::lines(rd) {
                let line = line.unwrap();
                if line.trim().is_empty() {
                    continue;
                }
                let beh: serde_json::Value = serde_json::from_str(&line).unwrap();
                let evs = beh.as_array().unwrap();
                let codec = evs.iter().find_map(|e| e.get("c").and_then(|c| c.as_str())).expect("behaviour names no codec").to_string();
                nb += 1;
                {
                    use std::hash::{Hash, Hasher};
                    let mut h = std::collections::hash_map::DefaultHasher::new();
                    line.hash(&mut h);
                    distinct.insert(h.finish());
                }
                if samples.len() < 2 && line.len() < 1500 {
                    samples.push(beh.clone());
                }
                world::LIB_PANICKED.store(false, std::sync::atomic::Ordering::Relaxed);
                let bad = with_codec!(codec.as_str(), A => replay_one::<A>(evs));
                ne += evs.len();
                if let Some((idx, observed)) = bad {
                    nm += 1;
                    let n = per_op.entry(evs[idx]["op"].as_str().unwrap_or("?").to_string()).or_insert(0);
                    *n += 1;
                    if *n <= 5 {
                        writeln!(vf, "{}", serde_json::json!({"behaviour": beh, "index": idx, "observed": observed})).unwrap();
                    }
                }
            }
            println!("{}", serde_json::json!({"behaviours": nb, "events": ne, "mismatches": nm, "mismatch_ops": per_op, "distinct": distinct.len(), "samples": samples}));
        }
        "rerun" => {
            // re-execute recorded calls (observations dropped) on the current tree
            if args.len() != 5 && args.len() != 6 {
                usage();
            }
            // optional 6th argument: the scenario the calls were recorded in
            if args.len() == 6 {
                world::CANON.store(world::canon_scenario(&args[5]), std::sync::atomic::Ordering::Relaxed);
            }
            let codec = args[2].as_str();
            let text = std::fs::read_to_string(&args[3]).unwrap();
            let lines = with_codec!(codec, A => rerun::<A>(&text));
            let mut f = std::io::BufWriter::new(std::fs::File::create(&args[4]).unwrap());
            for l in &lines {
                writeln!(f, "{l}").unwrap();
            }
            println!("{}", lines.len());
        }
        _ => usage(),
    }
}

fn rerun<A: cx::Cx>(text: &str) -> Vec<String> {
    let mut w = world::World::<A>::new();
    let mut out = Vec::new();
    for line in text.lines() {
        if line.trim().is_empty() {
            continue;
        }
        let mut ev: serde_json::Value = serde_json::from_str(line).unwrap();
        let m = ev.as_object_mut().unwrap();
        m.remove("obs");
        m.remove("known");
        if ev["op"] == "cell" || ev["op"] == "codecinfo" {
            // table dumps are regenerated wholesale
            continue;
        }
        let obs = w.exec(&ev);
        out.push(world::merge(&ev, obs).to_string());
    }
    out
}

/// first index (0-based) whose observation differs from the specification's prediction
fn replay_one<A: cx::Cx>(evs: &[serde_json::Value]) -> Option<(usize, serde_json::Value)> {
    let mut w = world::World::<A>::new();
    for (i, e) in evs.iter().enumerate() {
        let mut op = e.clone();
        let expected = op.as_object_mut().unwrap().remove("obs").unwrap();
        let obs = w.exec(&op);
        if obs != expected {
            return Some((i, obs));
        }
    }
    None
}
