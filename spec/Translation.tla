---------------------------- MODULE Translation ----------------------------
(***************************************************************************)
(* Codon translation (C13, C14, C15) -- meaning first, mechanism second.   *)
(*                                                                         *)
(* Meaning: a DNA codon codes the residue the standard genetic code        *)
(* (NCBI table 1, Codecs!Genetic) assigns; an IUPAC codon translates to X  *)
(* iff every DNA codon it matches codes X.                                 *)
(***************************************************************************)
EXTENDS SeqOps

AminoCode(ch) == AminoCodeOfChar(ch)
AminoChars == {AminoTable[i].ch : i \in 1 .. Len(AminoTable)}
AminoCodes == {AminoCode(ch) : ch \in AminoChars}

\* C13: amino code of a DNA codon <<b1, b2, b3>>
DnaToAmino(codon) == AminoCode(Genetic(codon[1], codon[2], codon[3]))

DnaCodons == {<<x, y, z>> : x \in Bases, y \in Bases, z \in Bases}

\* all DNA codons matched by a 3-symbol IUPAC codon (symbols = 4-bit codes)
Expand(q) == {<<x, y, z>> : x \in IupacSet(q[1]), y \in IupacSet(q[2]), z \in IupacSet(q[3])}

HasGap(q) == \E i \in 1 .. Len(q) : q[i] = 0

\* C14 forward.  Result kinds: "ok" (with the amino code), "ambiguous", "invalid",
\* "free" (gap-containing codon: the property only demands that nothing panics)
IupacToAmino(q) ==
    IF Len(q) # 3 THEN [k |-> "invalid"]
    ELSE IF HasGap(q) THEN [k |-> "free"]
    ELSE LET res == {Genetic(d[1], d[2], d[3]) : d \in Expand(q)}
         IN  IF Cardinality(res) = 1
             THEN [k |-> "ok", aa |-> AminoCode(CHOOSE r \in res : TRUE)]
             ELSE [k |-> "ambiguous"]

\* the DNA codons coding for an amino acid (given by its canonical code)
CodonsOf(aa) == {d \in DnaCodons : DnaToAmino(d) = aa}

\* C14 reverse: the unique IUPAC codon matching all and only the codons of aa
AminoToIupac(aa) ==
    LET cs == CodonsOf(aa)
        q == [i \in 1 .. 3 |-> IupacCode({d[i] : d \in cs})]
    IN  IF cs # {} /\ Expand(q) = cs THEN [k |-> "ok", codon |-> q]
        ELSE [k |-> "ambiguous"]

(***************************************************************************)
(* Mechanism: the implementation's 29-row first-match pattern table.       *)
(* Rows are <<IUPAC codon text, residue char>>; TLC checks that the        *)
(* first-match lookup equals IupacToAmino on all 15^3 gap-free codons.     *)
(***************************************************************************)
IC(ch) == FromAscii("iupac", ch)
Row(a, b, c, r) == [pat |-> <<IC(a), IC(b), IC(c)>>, aa |-> AminoCode(r)]
PatternRows == <<
    Row(chG, chC, chN, chA), Row(chT, chG, chY, chC), Row(chG, chA, chY, chD),
    Row(chG, chA, chR, chE), Row(chT, chT, chY, chF), Row(chG, chG, chN, chG),
    Row(chC, chA, chY, chH), Row(chA, chT, chH, chI), Row(chA, chA, chR, chK),
    Row(chC, chT, chN, chL), Row(chT, chT, chR, chL), Row(chC, chT, chY, chL),
    Row(chY, chT, chR, chL), Row(chA, chT, chG, chM), Row(chA, chA, chY, chN),
    Row(chC, chC, chN, chP), Row(chC, chA, chR, chQ), Row(chC, chG, chN, chR),
    Row(chA, chG, chR, chR), Row(chC, chG, chY, chR), Row(chM, chG, chR, chR),
    Row(chT, chC, chN, chS), Row(chA, chG, chY, chS), Row(chA, chC, chN, chT),
    Row(chG, chT, chN, chV), Row(chT, chG, chG, chW), Row(chT, chA, chY, chY),
    Row(chT, chA, chR, chStar), Row(chT, chR, chA, chStar) >>

M_IupacLookup(q) ==
    LET hits == {i \in 1 .. Len(PatternRows) : ContainsSeq(PatternRows[i].pat, q)}
    IN  IF Len(q) # 3 THEN [k |-> "invalid"]
        ELSE IF hits = {} THEN [k |-> "ambiguous"]
        ELSE [k |-> "ok", aa |-> PatternRows[Min(hits)].aa]

\* mechanism of the reverse map: fold rows in order, second sighting -> None
M_ReverseLookup(aa) ==
    LET rows == {i \in 1 .. Len(PatternRows) : PatternRows[i].aa = aa}
    IN  IF Cardinality(rows) = 1
        THEN [k |-> "ok", codon |-> PatternRows[CHOOSE i \in rows : TRUE].pat]
        ELSE [k |-> "ambiguous"]

(***************************************************************************)
(* Custom codon tables (C15): a finite map codon -> amino                  *)
(***************************************************************************)
\* entries: sequence of [k |-> codon symbols, v |-> amino code]; later duplicates win
TableMap(entries) ==
    LET keys == {entries[i].k : i \in 1 .. Len(entries)}
    IN  [key \in keys |-> entries[Max({i \in 1 .. Len(entries) : entries[i].k = key})].v]

TableToAmino(m, codon) ==
    IF codon \in DOMAIN m THEN [k |-> "ok", aa |-> m[codon]] ELSE [k |-> "invalid"]

TableToCodon(m, aa) ==
    LET pre == {key \in DOMAIN m : m[key] = aa}
    IN  IF pre = {} THEN [k |-> "invalidamino"]
        ELSE IF Cardinality(pre) = 1 THEN [k |-> "ok", codon |-> CHOOSE key \in pre : TRUE]
        ELSE [k |-> "ambiguous"]
=============================================================================
