------------------------------- MODULE Gen_C11 -------------------------------
(* Spec -> implementation for C11: every (length <= MaxLen, iterator kind,     *)
(* width 1..n+2) with the expected run, parents embedded across a word          *)
(* boundary, every codec.                                                       *)
EXTENDS MCBase, Json
CONSTANTS MaxLen, GenCodecs

VARIABLE hist
gvars == <<vars, hist>>
Ev(rec) == hist' = Append(hist, rec @@ [obs |-> out'])

Sym(c, i) == Items(c)[((i - 1) % Len(Items(c))) + 1].code
Pads(c) == {0, (64 \div W(c)) - 2}

GInit == Init /\ hist = <<>>

Load ==
    /\ Len(hist) = 0
    /\ \E c \in GenCodecs : \E n \in 0 .. MaxLen : \E pad \in Pads(c) :
          LET s == [i \in 1 .. (pad + n + 2) |-> Sym(c, i + pad)] IN
          FromSyms(0, c, s) /\ Ev([op |-> "fromsyms", dst |-> 0, c |-> c, via |-> "iter", syms |-> s])

Run ==
    /\ Len(hist) = 1
    /\ LET total == Len(reg[0].s)
           c == reg[0].c
       IN  \E pad \in Pads(c) : \E n \in 0 .. MaxLen :
             /\ pad + n + 2 = total
             /\ LET x == [base |-> "reg", r |-> 0, path |-> <<[f |-> "r", a |-> pad, b |-> pad + n]>>]
                    y == [base |-> "reg", r |-> 0, path |-> <<[f |-> "rf", a |-> total - 2, b |-> 0]>>]
                IN  \/ \E kind \in {"iter", "intoiter", "rev", "chain"} :
                          ItRun(kind, x, y, 0) /\ Ev([op |-> "itrun", kind |-> kind, x |-> x, y |-> y, w |-> 0])
                    \/ \E kind \in {"windows", "chunks"} : \E w \in 1 .. n + 2 :
                          ItRun(kind, x, y, w) /\ Ev([op |-> "itrun", kind |-> kind, x |-> x, y |-> y, w |-> w])

GNext == Load \/ Run
GSpec == GInit /\ [][GNext]_gvars
Emit == (Len(hist) = 2) => PrintT(<<"REPLAY", ToJson(hist)>>)
=============================================================================
