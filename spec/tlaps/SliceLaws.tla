------------------------------ MODULE SliceLaws ------------------------------
(***************************************************************************)
(* Unbounded proof (TLAPS) of the list-level core of C03, for ANY length,  *)
(* ANY symbols and ANY in-bounds ranges: a slice lo..hi (0-based, half     *)
(* open, as in the API) has hi-lo symbols, its i-th symbol is the parent's *)
(* (lo+i)-th, and slicing a slice is slicing the parent at the summed      *)
(* offsets -- so, by induction on the depth, a path of range steps of any  *)
(* depth selects exactly the window whose offset is the sum of the steps'  *)
(* lower bounds (what Giant.GPathFrom computes on lengths only and         *)
(* SeqOps.PathApply on lists; TLC checks both on all paths of depth <= 3). *)
(* Sl is SeqOps.Cut: SubSeq(s, lo+1, hi) written as a function.            *)
(***************************************************************************)
EXTENDS Integers, TLAPS

CONSTANT Sym

Sl(s, lo, hi) == [i \in 1 .. (hi - lo) |-> s[lo + i]]

THEOREM SliceShape ==
    ASSUME NEW n \in Nat, NEW s \in [1 .. n -> Sym], NEW lo \in 0 .. n, NEW hi \in lo .. n
    PROVE  /\ Sl(s, lo, hi) \in [1 .. (hi - lo) -> Sym]
           /\ \A i \in 1 .. (hi - lo) : Sl(s, lo, hi)[i] = s[lo + i]
  BY DEF Sl

THEOREM SliceOfSlice ==
    ASSUME NEW n \in Nat, NEW s \in [1 .. n -> Sym], NEW lo \in 0 .. n, NEW hi \in lo .. n,
           NEW c \in 0 .. (hi - lo), NEW d \in c .. (hi - lo)
    PROVE  Sl(Sl(s, lo, hi), c, d) = Sl(s, lo + c, lo + d)
<1>1. \A i \in 1 .. (d - c) : c + i \in 1 .. (hi - lo) /\ lo + (c + i) = (lo + c) + i
  OBVIOUS
<1>2. (lo + d) - (lo + c) = d - c
  OBVIOUS
<1> QED
  BY <1>1, <1>2 DEF Sl

\* the whole range is the identity, the empty range is empty wherever it is taken
THEOREM SliceWhole ==
    ASSUME NEW n \in Nat, NEW s \in [1 .. n -> Sym]
    PROVE  Sl(s, 0, n) = s
  BY DEF Sl

THEOREM SliceEmpty ==
    ASSUME NEW n \in Nat, NEW s \in [1 .. n -> Sym], NEW lo \in 0 .. n
    PROVE  Sl(s, lo, lo) = [i \in {} |-> s[i]]
  BY DEF Sl

\* two adjacent slices partition the parent: nothing is lost or duplicated at the cut
THEOREM SliceSplit ==
    ASSUME NEW n \in Nat, NEW s \in [1 .. n -> Sym], NEW m \in 0 .. n
    PROVE  \A i \in 1 .. n : s[i] = IF i <= m THEN Sl(s, 0, m)[i] ELSE Sl(s, m, n)[i - m]
  BY DEF Sl
=============================================================================
