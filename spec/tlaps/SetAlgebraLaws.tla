--------------------------- MODULE SetAlgebraLaws ---------------------------
(***************************************************************************)
(* Unbounded proof (TLAPS) of the sequence-level laws behind C12, for ANY  *)
(* length and ANY base alphabet: with every position read as a SET of      *)
(* bases, `|` is position-wise union, `&` position-wise intersection and   *)
(* `contains` position-wise inclusion; then a | b contains both operands,  *)
(* both contain a & b, `contains` is reflexive and transitive, and         *)
(* x contains y exactly when x | y = x exactly when x & y = y.  That the   *)
(* 4-bit CODES realise union / intersection / inclusion of the nucleotide  *)
(* sets is finite and checked by TLC on all 256 pairs (MC_C12).            *)
(***************************************************************************)
EXTENDS Naturals, TLAPS

CONSTANTS Bases, n
ASSUME Len == n \in Nat

Seqs == [1 .. n -> SUBSET Bases]
Or(s, t) == [i \in 1 .. n |-> s[i] \cup t[i]]
And(s, t) == [i \in 1 .. n |-> s[i] \cap t[i]]
Contains(p, q) == \A i \in 1 .. n : q[i] \subseteq p[i]

THEOREM Closed == \A s, t \in Seqs : Or(s, t) \in Seqs /\ And(s, t) \in Seqs
  BY DEF Seqs, Or, And

THEOREM OrContainsBoth == \A s, t \in Seqs : Contains(Or(s, t), s) /\ Contains(Or(s, t), t)
  BY DEF Seqs, Or, Contains

THEOREM BothContainAnd == \A s, t \in Seqs : Contains(s, And(s, t)) /\ Contains(t, And(s, t))
  BY DEF Seqs, And, Contains

THEOREM ContainsIsAPreorder ==
    /\ \A s \in Seqs : Contains(s, s)
    /\ \A s, t, u \in Seqs : Contains(s, t) /\ Contains(t, u) => Contains(s, u)
  BY DEF Seqs, Contains

THEOREM ContainsAntisymmetric == \A s, t \in Seqs : Contains(s, t) /\ Contains(t, s) => s = t
<1> TAKE s, t \in Seqs
<1> HAVE Contains(s, t) /\ Contains(t, s)
<1>1. \A i \in 1 .. n : s[i] = t[i]
  BY DEF Contains
<1> QED
  BY <1>1 DEF Seqs

THEOREM ContainsByOr == \A s, t \in Seqs : Contains(s, t) <=> Or(s, t) = s
<1> TAKE s, t \in Seqs
<1>1. Contains(s, t) => Or(s, t) = s
  <2> HAVE Contains(s, t)
  <2>1. \A i \in 1 .. n : s[i] \cup t[i] = s[i]
    BY DEF Contains
  <2>2. Or(s, t) = [i \in 1 .. n |-> s[i]]
    BY <2>1 DEF Or
  <2> QED
    BY <2>2 DEF Seqs
<1>2. Or(s, t) = s => Contains(s, t)
  <2> HAVE Or(s, t) = s
  <2>1. \A i \in 1 .. n : s[i] \cup t[i] = s[i]
    BY DEF Or
  <2> QED
    BY <2>1 DEF Contains
<1> QED
  BY <1>1, <1>2

THEOREM ContainsByAnd == \A s, t \in Seqs : Contains(s, t) <=> And(s, t) = t
<1> TAKE s, t \in Seqs
<1>1. Contains(s, t) => And(s, t) = t
  <2> HAVE Contains(s, t)
  <2>1. \A i \in 1 .. n : s[i] \cap t[i] = t[i]
    BY DEF Contains
  <2>2. And(s, t) = [i \in 1 .. n |-> t[i]]
    BY <2>1 DEF And
  <2> QED
    BY <2>2 DEF Seqs
<1>2. And(s, t) = t => Contains(s, t)
  <2> HAVE And(s, t) = t
  <2>1. \A i \in 1 .. n : s[i] \cap t[i] = t[i]
    BY DEF And
  <2> QED
    BY <2>1 DEF Contains
<1> QED
  BY <1>1, <1>2

THEOREM Lattice ==
    \A s, t \in Seqs : /\ Or(s, t) = Or(t, s) /\ And(s, t) = And(t, s)
                       /\ Or(s, s) = s /\ And(s, s) = s
<1> TAKE s, t \in Seqs
<1>1. Or(s, t) = Or(t, s) /\ And(s, t) = And(t, s)
  BY DEF Or, And
<1>2. Or(s, s) = [i \in 1 .. n |-> s[i]] /\ And(s, s) = [i \in 1 .. n |-> s[i]]
  BY DEF Or, And
<1> QED
  BY <1>1, <1>2 DEF Seqs
=============================================================================
