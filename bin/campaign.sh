#!/bin/bash
# bin/campaign.sh [<seed-dir-prefix> ...]   -- development aid (NOT a registered check): run the quick check of
# its property against each kept seeded change (seeded/S*/patch.diff), one after the other, through
# bin/mutant.sh (which patches /repo and restores it).  Without arguments: all seeds.  Prints one line
# per seed; exit status 1 if some seed is not reported.
cd /verif || exit 2
sel=("$@"); [ ${#sel[@]} -eq 0 ] && sel=(S)
missed=0
for d in seeded/S*/; do
  id=$(basename "$d")
  hit=0; for s in "${sel[@]}"; do case "$id" in $s*) hit=1;; esac; done
  [ $hit -eq 1 ] || continue
  prop=$(python3 -c "import json,sys; print(json.load(open('$d/meta.json'))['breaks_property'])")
  tier=quick; grep -q "THOROUGH only" "$d/meta.json" && tier=thorough
  out=$(bin/mutant.sh "$d/patch.diff" $tier $prop 2>&1 | grep -E "^== " | head -1)
  echo "$id: $out"
  echo "$out" | grep -q "exit 1" || missed=$((missed+1))
done
echo "not reported: $missed"
[ $missed -eq 0 ]
