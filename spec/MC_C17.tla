------------------------------- MODULE MC_C17 -------------------------------
(* C17: what a derived codec must answer, on bounded declarations; the width  *)
(* computation for every maximal discriminant 0..255.                         *)
EXTENDS MCBase

Checked(A, P) == A /\ Assert(P, "a derive law fails on the specification")

\* declarations: two or three variants over a few discriminants / alternatives / widths
Discs == {0, 1, 3, 4, 128, 255}
Decls ==
    {[bits |-> b,
      variants |-> <<[ch |-> 65, disc |-> d1, alts |-> a1], [ch |-> 42, disc |-> d2, alts |-> <<>>]>>] :
        b \in {-1, 0, 1, 2, 3, 7, 8}, d1 \in Discs, d2 \in Discs, a1 \in {<<>>, <<2>>, <<5, 6>>}}

Distinct(decl) ==
    /\ decl.variants[1].disc # decl.variants[2].disc
    /\ \A j \in 1 .. Len(decl.variants[1].alts) : decl.variants[1].alts[j] \notin {decl.variants[1].disc, decl.variants[2].disc}

DeriveLaw(decl) ==
    LET e == DeriveExpected(decl)  w == DeclWidth(decl) IN
    /\ decl.bits = -1 => (MaxDisc(decl) < 2 ^ w /\ (w = 0 \/ MaxDisc(decl) >= 2 ^ (w - 1)))      \* smallest width that fits
    /\ decl.bits >= 0 => w = decl.bits
    /\ \A i \in 1 .. 2 :
          /\ e.tfb[decl.variants[i].disc] = decl.variants[i].disc                      \* decodes from its discriminant
          /\ \A j \in 1 .. Len(decl.variants[i].alts) : e.tfb[decl.variants[i].alts[j]] = decl.variants[i].disc
          /\ e.tfa[decl.variants[i].ch] = decl.variants[i].disc                        \* parses from its character
          /\ e.codes[i] = decl.variants[i].disc /\ e.chars[i] = decl.variants[i].ch
    /\ \A p \in 0 .. 255 : VariantOfPattern(decl, p) = {} => e.tfb[p] = NoSym            \* everything else refused
    /\ \A b \in 0 .. 255 : b \notin {65, 42} => e.tfa[b] = NoSym

\* observers only: one step from the initial state covers everything
Fresh == "init" \in DOMAIN out
MCStep ==
    \E decl \in Decls :
        /\ Distinct(decl)
        /\ \/ (DeclWellFormed(decl) /\ Checked(DeriveProg(decl), DeriveLaw(decl)))
           \/ Checked(DeriveVerdict(decl, "none"),
                      out'.compiled <=> (decl.bits = -1 \/ MaxDisc(decl) < 2 ^ decl.bits))
MCNext == Fresh /\ MCStep
MCSpec == Init /\ [][MCNext]_vars

\* the width computation: least n with max < 2^n; the mechanism as found broke at 255
ASSUME \A m \in 0 .. 255 : M_MinWidth(m) = LeastWidth(m) /\ m < 2 ^ LeastWidth(m)
ASSUME \A m \in 1 .. 255 : m >= 2 ^ (LeastWidth(m) - 1)
ASSUME M_MinWidthAsFound(255) # LeastWidth(255) /\ \A m \in 0 .. 254 : M_MinWidthAsFound(m) = LeastWidth(m)
=============================================================================
