"""Hand-written texts for MANIFEST.json."""
NOT_APPLICABLE = {}
TECHNIQUE = {
    "C16": "TLA+ spec + TLC model checking; generated Rust programs compiled with the real macros, their logged values and compile verdicts validated as traces against the spec (TLC), both build profiles",
    "C17": "TLA+ spec + TLC model checking; generated #[derive(Codec)] programs compiled with the real derive, their logged tables and compile verdicts validated as traces against the spec (TLC), both build profiles",
    "C01": "TLA+ spec + TLC model checking; trace validation (impl->spec) plus every short byte string through every entry point replayed (spec->impl), both build profiles",
    "C07": "TLA+ spec + TLC model checking; trace validation (impl->spec) plus every short sequence x transform replayed across a word boundary (spec->impl), both build profiles",
    "C12": "TLA+ spec + TLC model checking; trace validation (impl->spec) plus all 256 symbol pairs at independent offsets replayed (spec->impl), both build profiles",
    "C19": "TLA+ spec + TLC model checking; trace validation (impl->spec) plus every short byte string trimmed, replayed (spec->impl), both build profiles",
    "C20": "TLA+ spec + TLC model checking; trace validation (impl->spec) plus every short masked sequence replayed across a word boundary (spec->impl), both build profiles",
    "C09": "TLA+ spec + TLC model checking; trace validation (impl->spec) plus TLC-generated k-mer operation histories replayed into the real library (spec->impl), both build profiles",
    "C13": "TLA+ spec + TLC model checking; trace validation (impl->spec) plus TLC-enumerated codons x offsets replayed (spec->impl), both build profiles; finite domain closed",
    "C14": "TLA+ spec + TLC model checking; trace validation (impl->spec) plus TLC-enumerated IUPAC codons replayed (spec->impl), both build profiles; finite domain closed",
    "C15": "TLA+ spec + TLC model checking over all fold orders; trace validation (impl->spec) plus TLC-enumerated maps and queries replayed (spec->impl), both build profiles",
    "C03": "TLA+ spec + TLC model checking; trace validation (impl->spec) plus TLC-generated slice expressions replayed into the real library (spec->impl), both build profiles",
    "C06": "TLA+ spec + TLC model checking; trace validation (impl->spec) plus TLC-generated edit histories replayed into the real library (spec->impl), both build profiles",
    "C11": "TLA+ spec + TLC model checking incl. a liveness property; trace validation (impl->spec) plus TLC-generated iterator runs replayed (spec->impl), both build profiles",
    "default": "TLA+ spec + TLC model checking; trace validation of recorded implementation executions against the spec (TLC), both build profiles",
}
_common = (" The verdict always comes from conformance: every recorded public call of the real library (all applicable codecs incl. two codecs derived in the harness "
           "with the real #[derive(Codec)], dev and release builds; the thorough tier adds a -C target-cpu=native build) "
           "must be a step of spec/BioSeq.tla with exactly the predicted observation, evaluated by TLC on every event; TLC also checks the laws on the "
           "specification itself over small complete domains.")
LEVEL_TEXT = {
    "C01": "Parsing/printing as actions Parse/Obs of the specification; traces of all 7 entry points over word-boundary lengths and invalid/non-ASCII inputs validated." + _common,
    "C02": "Eq/HashObs/MapGet actions over content with a ghost feed map (hash input is a function of content): every representation and PartialEq pairing is traced and validated." + _common,
    "C03": "Slice paths are part of every source in the specification; nested range expressions incl. just-past-the-end steps are traced from owned, literal and k-mer parents." + _common,
    "C04": "ToInt/IntoRaw/FromRaw/KFromInt actions state the little-endian layout on bit sequences (Bits.tla); images of sequences produced in every listed way are traced." + _common,
    "C05": "Finite domain closed completely: all 7x256 codec cells are dumped from the real code in canonical order and validated against Codecs.tla (written from the documentation)." + _common,
    "C06": "The register machine under edits; long random histories with full state comparison after every step, frame property checked by TLC; every remove is presented to RangeBounds in one of four spellings of the same range step (range syntax, pairs of Bounds with included / excluded / unbounded ends)." + _common,
    "C07": "Copying/InPlace actions for rev/comp/revcomp with involution and composition laws model-checked; traced on slices at offsets and word-boundary lengths." + _common,
    "C08": "KFrom/KParse/Kmers/KToSeq actions; k-mer construction and iteration traced for boundary or all instantiated K on usize/u64/u128." + _common,
    "C09": "KOp actions on raw patterns with the canonical-form invariant KCanonical checked at every trace state; exhaustive over all k-mers for small K." + _common,
    "C10": "Cmp/KMinMax actions: colexicographic order = numeric order model-checked on small K; adversarial pairs and minimisers traced for every Ord codec." + _common,
    "C11": "Iterator registers with ItNew/ItNext (step-wise) and ItRun (whole run); termination <>ItDone checked by TLC under fairness; runs traced with a call cap." + _common,
    "C12": "BitOp/ContainsSl actions defined on nucleotide SETS; all 256 symbol pairs at independent nibble offsets traced; the owned operators are fed fresh copies and also consume (move) the sequences the borrowed operators returned." + _common,
    "C13": "Finite domain closed completely: 64 codons x 32 bit offsets through the real to_amino, validated against the NCBI table in Codecs.tla." + _common,
    "C14": "Finite domain closed completely: all 16^3 IUPAC codons; soundness/completeness defined by expansion sets (Translation.tla), the 29-row mechanism checked against it by TLC." + _common,
    "C15": "TableNew/TableFold state machine: order independence of the inverse map model-checked over all insertion orders; tables rebuilt repeatedly and queried by slices at offsets." + _common,
    "C16": "LitProg/KmerLit/LitVerdict actions (Derive.tla): generated programs expand every literal with the real macros; the values they log and the per-target compile verdicts are recorded as events and validated by TLC; the macro crate's bit lists are model-checked against Pack(Parse(text))." + _common,
    "C17": "DeriveProg/DeriveVerdict actions (Derive.tla): seeded enum declarations are compiled with the real derive; BITS, both decoders over all 256 bytes, items, characters, a Seq round trip and the compile verdicts of malformed declarations are recorded as events and validated by TLC; the width law is model-checked for every maximal discriminant." + _common,
    "C18": "SerdeRT is the identity on content; interleaved into register histories (json + bincode), k-mers of every instantiated K/storage." + _common,
    "C19": "Convert/TextBaseToDna/Trim actions; all 256 bytes, all short strings over good/bad bytes, literals and SeqArray sources." + _common,
    "C20": "Mask/Unmask transforms with idempotence/involution/commutation laws model-checked on all symbols; traced on 5-bit symbols straddling words." + _common,
}

_SYS = (" Random walks through the WHOLE machine (Gen_SYS.tla under tlc -simulate: edits, copies, k-mers, iterators, observers side by side) are "
        "replayed as well; a divergence is reported by the property that owns the diverging operation.")
_GIANT = " Thorough tier: the same family of calls on a sequence longer than 2^32 bits whose content the specification knows as a function of the position (Giant.tla)."
_TLAPS = {
    "SliceLaws": " Unbounded (TLAPS, spec/tlaps/SliceLaws.tla): slice length, i-th symbol and slice-of-slice = slice at the summed offsets, for any length.",
    "TransformLaws": " Unbounded (TLAPS, spec/tlaps/TransformLaws.tla): reversal is an involution, position-wise tables commute with it, involutive / idempotent / absorbing / commuting tables lift to sequences, for any length and alphabet.",
    "ColexNumeric": " Unbounded (TLAPS, spec/tlaps/ColexNumeric.tla, thorough tier): colexicographic order = numeric order of the packed integers and packing is injective, for any base and length.",
    "EditLaws": " Unbounded (TLAPS, spec/tlaps/EditLaws.tla): an insertion moves nothing before it and shifts the rest by the argument's length; remove-what-was-inserted, reinsert-what-was-removed and truncate-after-push restore the sequence, for any length.",
    "SetAlgebraLaws": " Unbounded (TLAPS, spec/tlaps/SetAlgebraLaws.tla): with positions read as sets, a|b contains both operands, both contain a&b, contains is a partial order and equals x|y = x and x&y = y, for any length and alphabet.",
    "KmerLaws": " Unbounded (TLAPS, spec/tlaps/KmerLaws.tla): a push drops exactly one symbol from the other end, pushing the dropped symbol back restores the k-mer, rotation by one is a push and the two rotations undo each other, the canonical form is strand independent for any involution, for any K and alphabet.",
    "WindowLaws": " Unbounded (TLAPS, spec/tlaps/WindowLaws.tla): the n-w+1 windows lie inside the sequence, symbol j of window i is symbol i+j, consecutive windows overlap in w-1 symbols and together spell the sequence; chunks are consecutive, disjoint and inside, for any length and width.",
    "TableFoldProof": " Unbounded (TLAPS, spec/tlaps/TableFoldProof.tla): the folded inverse map is a function of the forward map alone, for any sets of codons and amino acids.",
}
LEVEL_TEXT["C02"] += (" One listed known finding (known_findings.json D12: sequences that store an alternative bit pattern compare and hash by stored bits) "
                      "is reported as KNOWN-FINDING by its own tagged scenario and suppresses nothing else.")
LEVEL_TEXT["C05"] = LEVEL_TEXT["C05"].replace("all 7x256 codec cells", "all 9x256 codec cells (seven built-in codecs and two derived in the harness)")
_TLAPS_FOR = {
    ("C01", "TransformLaws"): " Unbounded (TLAPS, spec/tlaps/TransformLaws.tla, MapLeftInverse): a per-symbol encoding with a left inverse (display then parse) round-trips on sequences of any length.",
    ("C18", "TransformLaws"): " Unbounded (TLAPS, spec/tlaps/TransformLaws.tla, MapLeftInverse): a per-symbol encoding with a left inverse (encode then decode) round-trips on sequences of any length.",
    ("C02", "ColexNumeric"): " Unbounded (TLAPS, spec/tlaps/ColexNumeric.tla, thorough tier): packing is injective -- equal packed integers mean equal symbols, for any width and length.",
    ("C04", "ColexNumeric"): " Unbounded (TLAPS, spec/tlaps/ColexNumeric.tla, thorough tier): the packed integer of k symbols is below 2^(k*BITS) and determines the symbols, for any width and length.",
}
from plan import PLAN as _PLAN
for _pid, _pl in _PLAN.items():
    for _tier in ("quick", "thorough"):
        for _m in _pl.get("tlaps", {}).get(_tier, []):
            LEVEL_TEXT[_pid] += _TLAPS_FOR.get((_pid, _m), _TLAPS[_m])
    if any(len(g) > 2 for g in _pl.get("gen", {}).get("quick", [])):
        LEVEL_TEXT[_pid] += _SYS
    if any(t[0].startswith("giant_") for t in _pl.get("traces", [])):
        LEVEL_TEXT[_pid] += _GIANT
