------------------------------- MODULE MC_SYS -------------------------------
(* The whole machine at once: sequence registers, k-mer registers, an iterator  *)
(* and a codon table side by side, every family of action enabled.  Checked:     *)
(* the type invariant incl. k-mer canonical form, the frame properties (an       *)
(* action changes at most one sequence register; observers change nothing; a     *)
(* live iterator's items never change, whatever happens to its source), the      *)
(* order-independence of table construction, and iterator termination.           *)
EXTENDS MCBase
CONSTANTS MaxLen

Alpha == {0, 3}
Short == SeqsUpTo(Alpha, 1)

SeqAct ==
    \E d \in RegIds :
        \/ \E s \in Short : FromSyms(d, "dna", s)
        \/ (reg[d].c # "none" /\ \E x \in Alpha : Push(d, x))
        \/ (reg[d].c # "none" /\ Len(reg[d].s) > 0 /\ RemoveRange(d, [f |-> "rt", a |-> 0, b |-> 1]))
        \/ (reg[d].c # "none" /\ \E r \in RegIds \ {d} : reg[r].c # "none" /\ \E src \in Sources1(r) : AppendSl(d, src) \/ InsertSl(d, 0, src))
        \/ (reg[d].c # "none" /\ \E t \in {"rev", "revcomp"} : InPlace(d, t))
        \/ \E r \in RegIds \ {d} : reg[r].c # "none" /\ (Clone(d, r) \/ SerdeRT(d, r) \/ Copying(d, WholeReg(r), "comp"))

KAct ==
    \/ \E r \in RegIds : reg[r].c # "none" /\ \E K \in 1 .. 2 : KFrom(0, WholeReg(r), K, 64)
    \/ (kreg[0].c # "none" /\ \E x \in Alpha : KOp(0, 0, "pushr", x) \/ KOp(0, 0, "pushl", x))
    \/ (kreg[0].c # "none" /\ (KOp(0, 0, "rev", 0) \/ KOp(0, 0, "revcomp", 0) \/ KOp(0, 0, "rotl", <<0, 1>>)))
    \/ (kreg[0].c # "none" /\ KToSeq(1, 0))

ItAct ==
    \/ (reg[0].c # "none" /\ ~itr[0].live /\ \E kind \in {"iter", "rev", "windows", "chunks"} : ItNew(0, kind, WholeReg(0), WholeReg(0), 2))
    \/ ItNext(0)

TabAct ==
    \/ (treg[0].c = "none" /\ \E e \in {{[k |-> <<0>>, v |-> 6], [k |-> <<3>>, v |-> 6], [k |-> <<0, 3>>, v |-> 0]}, {[k |-> <<0>>, v |-> 6]}} :
            TableNew(0, "dna", SetToSeq(e)))
    \/ \E key \in {<<0>>, <<3>>, <<0, 3>>} : treg[0].c # "none" /\ key \in treg[0].pending /\ TableFold(0, key)
    \/ (TableBuilt(0) /\ reg[0].c # "none" /\ TableAmino(0, WholeReg(0)))
    \/ (TableBuilt(0) /\ \E aa \in {6, 0, 3} : TableCodon(0, aa))

ObsAct ==
    \E r \in RegIds : reg[r].c # "none" /\
        \/ \E src \in Sources1(r) : Obs(src, <<0, 1>>, <<0>>)
        \/ Eq(reg[r], reg[0])
        \/ (reg[r].c = reg[0].c /\ Len(reg[r].s) = Len(reg[0].s) /\ Cmp(reg[r], reg[0]))
        \/ (Len(reg[r].s) > 0 /\ ToInt(WholeReg(r), TRUE, 64, ToIntRes(WholeReg(r), TRUE, 64)))

\* each family keeps its hands off the others' registers (asserted on every transition it generates)
Keeps(A, P) == A /\ Assert(P, "an action family disturbed registers that are not its own")

MCNext ==
    \/ Keeps(SeqAct, kreg' = kreg /\ treg' = treg /\ itr' = itr)
    \/ KAct
    \/ Keeps(ItAct, reg' = reg /\ kreg' = kreg /\ treg' = treg)
    \/ Keeps(TabAct, reg' = reg /\ kreg' = kreg /\ itr' = itr)
    \/ Keeps(ObsAct, reg' = reg /\ kreg' = kreg /\ treg' = treg /\ itr' = itr)
MCSpec == Init /\ [][MCNext]_vars /\ WF_vars(ItNext(0))

Bounded == (\A r \in RegIds : Len(reg[r].s) <= MaxLen) /\ Cardinality(DOMAIN feed) <= 1

\* what a live iterator owes is fixed at creation, whatever is done to its source afterwards
IterItemsFixed == [][itr[0].live => (itr'[0].live /\ itr'[0].items = itr[0].items)]_vars
=============================================================================
