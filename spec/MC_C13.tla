------------------------------- MODULE MC_C13 -------------------------------
(* C13: reading three 2-bit bases in place as a 6-bit amino pattern gives    *)
(* the standard genetic code for all 64 codons, wherever the codon sits.     *)
EXTENDS MCBase

Checked(A, P) == A /\ Assert(P, "the standard translation law fails on the specification")

MCNext ==
    \/ reg[0].c = "none" /\ \E pre \in SeqsUpTo({1}, 2) : \E x \in Bases, y \in Bases, z \in Bases :
          FromSyms(0, "dna", pre \o <<x, y, z>> \o <<2>>)
    \/ /\ reg[0].c # "none"
       /\ \E a \in 0 .. Len(reg[0].s) : \E n \in {0, 1, 2, 3, 4} :
             a + n <= Len(reg[0].s) /\
             LET src == [base |-> "reg", r |-> 0, path |-> <<[f |-> "r", a |-> a, b |-> a + n]>>]
                 cdn == SubSeq(reg[0].s, a + 1, a + n)
             IN  Checked(ToAmino(src, IF n = 3 THEN ToAminoRes(src) ELSE Panic),
                         IF n = 3
                         THEN /\ out'.ok
                              /\ Char("amino", out'.aa) = Genetic(cdn[1], cdn[2], cdn[3])
                              /\ out'.aa = M_ToAmino(Pack(cdn, 2))                   \* the in-place 6-bit read
                         ELSE "free" \in DOMAIN ToAminoRes(src))                     \* outside the property
MCSpec == Init /\ [][MCNext]_vars
=============================================================================
