------------------------------- MODULE MC_C19 -------------------------------
(* C19: conversion keeps length and letters; text -> DNA succeeds exactly on *)
(* A, C, G, T; trimming = strict parsing of the span between the first and   *)
(* last acceptable byte.                                                      *)
EXTENDS MCBase
CONSTANTS MaxLen

Checked(A, P) == A /\ Assert(P, "a conversion/trimming law fails on the specification")

Alpha(c) == {Items(c)[1].ch, Items(c)[Len(Items(c))].ch, 35, 122}      \* two good, two bad bytes

TrimLaw(c, v) ==
    LET r == TrimRes(c, v)
        good == {i \in 1 .. Len(v) : FromAscii(c, v[i]) # NoSym}
    IN  /\ good = {} => r = [ok |-> TRUE, syms |-> <<>>]
        /\ good # {} =>
              LET i == Min(good)  j == Max(good) IN
              /\ r = ParseRes(c, SubSeq(v, i, j))
              /\ (r.ok <=> \A k \in i .. j : k \in good)                 \* interior bad bytes are errors
              /\ r.ok => Len(r.syms) = j - i + 1
              /\ ~r.ok => r.byte = v[Min({k \in i .. j : k \notin good})]

Fresh == reg[0].c = "none" /\ reg[1].c = "none"
MCNext ==
    \/ Fresh /\ \E c \in CodecNames : \E v \in SeqsUpTo(Alpha(c), MaxLen) : Checked(Trim(0, c, v), TrimLaw(c, v))
    \/ Fresh /\ \E s \in SeqsUpTo(Bases, MaxLen) : FromSyms(1, "dna", s)
    \/ /\ reg[1].c = "dna"
       /\ \E to \in {"iupac", "text"} : \E src \in Sources1(1) :
             Checked(Convert(src, to),
                     LET x == Resolve(src).s IN
                     /\ out'.len = Len(x)
                     /\ out'.disp = Display("dna", x)                       \* the same letters
                     /\ to = "iupac" => \A i \in 1 .. Len(x) : IupacSet(out'.syms[i]) = {x[i]})
    \/ Fresh /\ \E b \in 0 .. 255 :
          Checked(TextBaseToDna(b), out'.ok <=> b \in {chA, chC, chG, chT})
MCSpec == Init /\ [][MCNext]_vars
=============================================================================
