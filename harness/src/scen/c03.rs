//! C03: nested slicing and positional access, in bounds and just past the end,
//! from owned registers, static literals and k-mer derefs.
use crate::cx::Cx;
use crate::drv::{boundary_lens, step, step_len, Drv};
use serde_json::{json, Value};

fn probes(n: usize) -> Vec<usize> {
    let mut v = vec![0, 1, n / 2, n.saturating_sub(1), n, n + 1, n + 64];
    v.sort();
    v.dedup();
    v
}

/// an out-of-bounds step just past the end of a sequence of length n
fn oob_step<A: Cx>(d: &mut Drv<A>, n: usize) -> Value {
    match d.rng.below(7) {
        0 => step("r", d.rng.range(0, n), n + 1),
        1 => step("r", n + 1, n + 1),
        2 => step("ri", d.rng.range(0, n), n),
        3 => step("rt", 0, n + 1),
        4 => step("rti", 0, n),
        5 => step("rf", n + 1, 0),
        _ => step("idx", n, 0),
    }
}

fn limbs(x: u64) -> Value {
    json!([x & 0xffff, (x >> 16) & 0xffff, (x >> 32) & 0xffff, x >> 48])
}

/// Positions far beyond the end of the slice `src` of `n` symbols: powers of two up to usize::MAX and,
/// above all, positions whose BIT offset (position x width) wraps around 2^64 back into the sequence.
fn far_probes<A: Cx>(d: &mut Drv<A>, src: &Value, n: usize) {
    let w = u64::from(A::BITS);
    // inverse of the odd part of w modulo 2^64 (Newton iteration)
    let t = w.trailing_zeros();
    let odd = w >> t;
    let mut inv: u64 = odd;
    for _ in 0..6 {
        inv = inv.wrapping_mul(2u64.wrapping_sub(odd.wrapping_mul(inv)));
    }
    let mut far: Vec<u64> = vec![1 << 31, (1 << 32) + 1, 1 << 62, 1 << 63, (1 << 63) + 1, u64::MAX - 1, u64::MAX];
    // i with i*w = m (mod 2^64) for small bit offsets m inside the sequence
    for m in [0u64, w, 1, (n as u64 / 2) * w, (n as u64).saturating_sub(1) * w] {
        if m % (1 << t) == 0 {
            let base = (m >> t).wrapping_mul(inv);
            for hi in [0u64, 1, 2] {
                // adding multiples of 2^(64-t) does not change i*w modulo 2^64
                let i = if t == 0 { base } else { base.wrapping_add(hi << (64 - t)) };
                far.push(i);
            }
        }
    }
    far.retain(|&i| i >= 1 << 31);
    far.sort();
    far.dedup();
    let small = [0u64, 1, n as u64 / 2, n as u64];
    for (k, &i) in far.iter().enumerate() {
        for how in ["get", "nth", "idx", "rf"] {
            d.emit(json!({"op": "far", "src": src, "how": how, "a": limbs(i), "b": limbs(0)}));
        }
        let a = small[k % small.len()];
        for how in ["r", "ri", "rt", "rti"] {
            d.emit(json!({"op": "far", "src": src, "how": how, "a": limbs(a), "b": limbs(i)}));
            // both bounds far, a few symbols apart
            if i < u64::MAX - 4 {
                d.emit(json!({"op": "far", "src": src, "how": how, "a": limbs(i), "b": limbs(i + 3)}));
            }
        }
    }
}

pub fn run<A: Cx>(d: &mut Drv<A>, scale: usize) {
    let w = A::BITS as usize;
    let lens = boundary_lens(w);
    let lits = A::lits();
    for _ in 0..scale.max(1) {
        // parents: boundary lengths plus a long one
        for (i, &n) in lens.iter().chain([200 + d.rng.below(61)].iter()).enumerate() {
            let r = i % 8;
            let t = d.rand_text(n);
            d.emit(json!({"op": "parse", "dst": r, "c": A::NAME, "entry": "vec", "bytes": t}));
            // the whole owned value through its own receiver
            {
                let p = probes(n);
                d.emit(json!({"op": "obs", "src": {"base": "reg", "r": r, "path": [], "acc": "seq"}, "gets": p, "nths": p}));
            }
            if i % 3 == 0 && n > 0 {
                far_probes(d, &json!({"base": "reg", "r": r, "path": []}), n);
                if n > 4 {
                    far_probes(d, &json!({"base": "reg", "r": r, "path": [step("r", 1, n - 1)]}), n - 2);
                }
            }
            for _ in 0..6 {
                let mut src = d.rand_src(r);
                let mut m = n;
                for st in src["path"].as_array().unwrap() {
                    m = step_len(st, m);
                }
                if d.rng.chance(1, 4) {
                    // leave the sequence at the last step
                    let o = oob_step(d, m);
                    src["path"].as_array_mut().unwrap().push(o);
                    d.emit(json!({"op": "obs", "src": src, "gets": [], "nths": []}));
                } else {
                    let p = probes(m);
                    if d.rng.chance(1, 3) {
                        // the owned sequence reached through AsRef / Borrow instead of Deref
                        let acc = *d.rng.pick(&["asref", "borrow", "refborrow", "sliceasref"]);
                        src["acc"] = json!(acc);
                    }
                    d.emit(json!({"op": "obs", "src": src, "gets": p, "nths": p}));
                }
            }
        }
        // static literals
        for (id, (t, _)) in lits.iter().enumerate() {
            let slot = 16 + id % 8;
            d.emit(json!({"op": "lit", "dst": slot, "c": A::NAME, "id": id, "bytes": t.as_bytes()}));
            for _ in 0..3 {
                let src = d.rand_src(slot);
                let mut m = t.len();
                for st in src["path"].as_array().unwrap() {
                    m = step_len(st, m);
                }
                let p = probes(m);
                d.emit(json!({"op": "obs", "src": src, "gets": p, "nths": p}));
            }
        }
        // k-mer derefs (usize storage)
        let kmax = 64 / w;
        for &k in &[1usize, 2, 3, kmax / 2, kmax - 1, kmax] {
            if k == 0 || k > 33 && ![42, 63, 64].contains(&k) {
                continue;
            }
            let t = d.rand_text(k);
            d.emit(json!({"op": "kparse", "kd": 0, "c": A::NAME, "k": k, "st": "usize", "bytes": t}));
            for _ in 0..3 {
                let mut m = k;
                let mut path = Vec::new();
                for _ in 0..d.rng.below(3) {
                    let st = d.rand_step(m);
                    m = step_len(&st, m);
                    path.push(st);
                }
                if d.rng.chance(1, 5) {
                    path.push(oob_step(d, m));
                    d.emit(json!({"op": "obs", "src": {"base": "kmer", "r": 0, "path": path}, "gets": [], "nths": []}));
                } else {
                    let p = probes(m);
                    d.emit(json!({"op": "obs", "src": {"base": "kmer", "r": 0, "path": path}, "gets": p, "nths": p}));
                }
            }
        }
        d.reset();
    }
}
