------------------------------- MODULE MC_C04 -------------------------------
(* C04: the little-endian layout.  Integer = sum code(i) * 2^(i*w); refusal  *)
(* iff more than 64 bits; images rebuild exactly when they hold enough        *)
(* symbols; FromRaw(IntoRaw(s), len s) = s.                                   *)
EXTENDS MCBase
CONSTANTS MaxLen

Cods == {"degen", "dna", "iupac", "miupac", "amino", "text"}
Two(c) == {Items(c)[1].code, Items(c)[Len(Items(c))].code}

Checked(A, P) == A /\ Assert(P, "a layout law fails on the specification")

RECURSIVE SumCodes(_, _, _)
SumCodes(s, w, i) == IF i > Len(s) THEN 0 ELSE s[i] * 2 ^ ((i - 1) * w) + SumCodes(s, w, i + 1)

IntLaw(c, s) ==
    LET bits == Pack(s, W(c))
    IN  /\ Len(bits) = Len(s) * W(c)
        /\ Len(bits) <= 30 => ValOf(bits) = SumCodes(s, W(c), 1)        \* the documented integer
        /\ M_ToUsize(bits).ok <=> Len(bits) <= 64
        /\ Unpack(bits, W(c)) = s                                      \* decoding the integer back

\* a one-word image built from s; rebuilding with every count
ImageLaw(c, s) ==
    LET w == W(c)
        img == Limbs(Pack(s, w), 1)
        cap == 64 \div w
    IN  \A n \in 0 .. cap + 2 :
            LET m == M_FromRaw(BitsOfLimbs(img), n, w)
                found == M_FromRawAsFound(BitsOfLimbs(img), n, w)
            IN  /\ m.ok <=> n <= cap
                /\ (m.ok /\ n <= Len(s)) => DecodeSeq(c, Unpack(m.bits, w)) = SubSeq(s, 1, n)
                /\ (m.ok /\ n = Len(s)) => DecodeSeq(c, Unpack(m.bits, w)) = s
                \* the mechanism as found accepted counts the image cannot hold (for w > 1)
                /\ (w > 1 /\ n > cap /\ n <= 64) => found.ok

MCNext ==
    \/ \E c \in Cods : \E s \in SeqsUpTo(Two(c), MaxLen) :
          Checked(FromSyms(0, c, s), IntLaw(c, s) /\ ImageLaw(c, s))
    \/ /\ reg[0].c # "none" /\ Len(reg[0].s) > 0
       /\ Checked(ToInt(WholeReg(0), TRUE, 64, ToIntRes(WholeReg(0), TRUE, 64)),
                  out'.ok /\ BitsOfLimbs(out'.limbs) = ZeroExt(Pack(reg[0].s, W(reg[0].c)), 64))
    \/ /\ reg[0].c # "none"
       /\ LET img == Limbs(Pack(reg[0].s, W(reg[0].c)), WordsFor(Len(reg[0].s) * W(reg[0].c)))
          IN  /\ Checked(IntoRaw(0, img), out'.ok)
    \/ /\ reg[0].c # "none"
       /\ \E n \in 0 .. (64 \div W(reg[0].c)) + 2 :
             Checked(FromRaw(1, reg[0].c, n, Limbs(Pack(reg[0].s, W(reg[0].c)), 1)),
                     /\ out'.ok <=> n * W(reg[0].c) <= 64
                     /\ (out'.ok /\ n = Len(reg[0].s)) => reg'[1].s = reg[0].s)
MCSpec == Init /\ [][MCNext]_vars

\* a rebuilt register ends the exploration of that branch
NoRebuilt == reg[1].c = "none"
=============================================================================
