#!/bin/bash
# Apalache: (1) Init => IndInv  (2) IndInv /\ Next => IndInv'  (3) IndInv => Safety
cd "$(dirname "$0")"
set -e
timeout 600 apalache-mc check --cinit=ConstInit --init=Init --inv=IndInv --length=0 ChunksInd.tla | grep -E "The outcome is"
timeout 900 apalache-mc check --cinit=ConstInit --init=IndInit --inv=IndInv --length=1 ChunksInd.tla | grep -E "The outcome is"
timeout 900 apalache-mc check --cinit=ConstInit --init=IndInit --inv=Safety --length=0 ChunksInd.tla | grep -E "The outcome is"
