SPECIFICATION GSpec
CONSTANTS
    NR = 2
    NK = 1
    NT = 1
    NI = 1
    MaxLen = 4
    GenCodecs = {"mdna", "miupac"}
    Ops = {"mask", "unmask"}
INVARIANT Emit
CHECK_DEADLOCK FALSE
