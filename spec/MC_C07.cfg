SPECIFICATION MCSpec
CONSTANTS
    NR = 2
    NK = 1
    NT = 1
    NI = 1
    MaxLen = 3
VIEW MCView
CONSTRAINT NoCopy
INVARIANT TypeOK
CHECK_DEADLOCK FALSE
