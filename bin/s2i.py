"""Spec -> implementation: TLC unfolds the specification's behaviours (Gen_*.tla), every
behaviour is replayed into the real library by `bsx replay`, observation by observation."""
import json
import os
import re
import subprocess
import time

ROOT = os.path.dirname(os.path.dirname(os.path.abspath(__file__)))
SPEC = os.path.join(ROOT, "spec")
OUT = os.path.join(ROOT, "out")
HARNESS = os.path.join(ROOT, "harness")


import sys
sys.path.insert(0, os.path.dirname(os.path.abspath(__file__)))
from vlib import ToolError  # noqa: E402


def generate(module, cfg, dest, tag, workers=4, timeout=3000, simulate=None, seed=0):
    """run TLC on a generator; write one behaviour (JSON array) per line to dest.
    simulate = (walks per worker, depth): random walks (tlc -simulate) instead of exhaustive unfolding"""
    md = os.path.join(OUT, "tlc", tag)
    subprocess.run(["rm", "-rf", md])
    env = dict(os.environ)
    import vlib
    env["JAVA_TOOL_OPTIONS"] = "-Xss64m -Xmx8g" + vlib._java_tmp()
    cmd = ["tlc", "-workers", str(workers), "-metadir", md, "-cleanup", "-noGenerateSpecTE", "-config", cfg]
    if simulate:
        cmd += ["-seed", str(seed), "-simulate", "num=%d" % simulate[0], "-depth", str(simulate[1])]
    cmd.append(module)
    p = subprocess.Popen(cmd, cwd=SPEC, env=env, stdout=subprocess.PIPE, stderr=subprocess.STDOUT)
    n = 0
    tail = []
    states = transitions = 0
    ok = bad = False
    with open(dest, "w") as f:
        for raw in p.stdout:
            line = raw.decode("utf-8", "replace")
            if line.startswith('<<"REPLAY", "'):
                i = line.index('"[')
                f.write(json.loads(line[i:line.rindex('"') + 1]) + "\n")
                n += 1
                continue
            if "No error has been found" in line or (simulate and line.startswith("Finished in")):
                ok = True
            if line.startswith("Error:"):
                bad = True
            m = re.search(r"(\d+) states generated, (\d+) distinct states found", line)
            if m:
                transitions, states = int(m.group(1)), int(m.group(2))
            m = re.search(r"The number of states generated: (\d+)", line)
            if m:      # simulation mode: states visited along the walks (candidates included)
                transitions = states = int(m.group(1))
            if not re.match(r"^(Parsing|Semantic|Linting|Progress|$)", line):
                tail.append(line.rstrip())
                tail = tail[-40:]
    p.wait()
    subprocess.run(["rm", "-rf", md])
    if not ok or bad:
        raise ToolError("generator %s/%s failed:\n%s" % (module, cfg, "\n".join(tail)))
    return n, states, transitions


def run_gen(pid, tier, gen, seed):
    """gen = (module, cfg) or (module, cfg, opts).  -> result dict for bin/check.
    opts: simulate = (walks per worker, depth); owned = True: the generator walks the WHOLE machine, and
    a divergence at step i is reported only if this property owns the operation of step i (plan.OWNER) --
    a divergence at another property's operation is that property's to report, and is counted as foreign"""
    module, cfg = gen[0], gen[1]
    opts = gen[2] if len(gen) > 2 else {}
    t0 = time.time()
    d = os.path.join(OUT, pid, tier)
    os.makedirs(d, exist_ok=True)
    beh = os.path.join(d, cfg.replace(".cfg", "") + ".behaviours.ndjson")
    n, states, transitions = generate(module + ".tla", cfg, beh, "%s-%s-%s" % (pid, tier, cfg),
                                      simulate=opts.get("simulate"), seed=seed)
    if n == 0:
        raise ToolError("generator %s produced no behaviour" % cfg)
    res = dict(kind="s2i", name=cfg.replace(".cfg", ""), behaviours=n, states=states, transitions=transitions,
               evaluations=0, distinct=0, accepted_units=0, violations=[], samples=[], foreign_divergences=0)
    if opts.get("simulate"):
        res["mode"] = "tlc -simulate num=%d (x4 workers) depth=%d seed=%d" % (opts["simulate"][0], opts["simulate"][1], seed)
    from plan import OWNER
    for profile, dirn in (("dev", "debug"), ("release", "release")):
        vio = os.path.join(d, "%s.%s.mismatch.ndjson" % (cfg.replace(".cfg", ""), profile))
        p = subprocess.run([os.path.join(HARNESS, "target", dirn, "bsx"), "replay", beh, vio],
                           stdout=subprocess.PIPE, stderr=subprocess.PIPE)
        if p.returncode != 0:
            raise ToolError("bsx replay failed: " + p.stderr.decode()[-2000:])
        s = json.loads(p.stdout.decode().strip().splitlines()[-1])
        res["evaluations"] += s["events"]
        res["distinct"] = max(res["distinct"], s["distinct"])
        res["accepted_units"] += s["behaviours"] - s["mismatches"]
        res["samples"] = s["samples"][:1]
        if s["mismatches"]:
            mine = []
            for line in open(vio).read().splitlines():
                v = json.loads(line)
                if opts.get("owned") and OWNER.get(v["behaviour"][v["index"]].get("op")) != pid:
                    continue
                mine.append(v)
            if opts.get("owned"):
                own_n = sum(c for o, c in s.get("mismatch_ops", {}).items() if OWNER.get(o) == pid)
                res["foreign_divergences"] += s["mismatches"] - own_n
            for k, v in enumerate(mine[:3]):
                path = os.path.join(d, "violation-s2i-%s-%s-%d.ndjson" % (cfg.replace(".cfg", ""), profile, k + 1))
                hdr = {"replay": {"kind": "s2i", "property": pid, "generator": cfg, "profile": profile,
                                  "owned": bool(opts.get("owned")), "index": v["index"], "observed": v["observed"]}}
                open(path, "w").write(json.dumps(hdr) + "\n" + json.dumps(v["behaviour"]) + "\n")
                exp = v["behaviour"][v["index"]]
                res["violations"].append(dict(
                    path=path, profile=profile, index=v["index"], codec=exp.get("c", "-"),
                    message="step %d (%s): specification expects %s, the library gave %s" % (
                        v["index"], exp.get("op"), json.dumps(exp.get("obs"))[:600], json.dumps(v["observed"])[:600])))
    res["wall"] = time.time() - t0
    return res


def replay(pid, path, hdr):
    lines = open(path).read().splitlines()
    d = os.path.join(OUT, pid, "replay")
    os.makedirs(d, exist_ok=True)
    beh = os.path.join(d, "behaviour.ndjson")
    open(beh, "w").write(lines[1] + "\n")
    dirn = "debug" if hdr["profile"] == "dev" else "release"
    vio = os.path.join(d, "mismatch.ndjson")
    p = subprocess.run([os.path.join(HARNESS, "target", dirn, "bsx"), "replay", beh, vio], stdout=subprocess.PIPE)
    s = json.loads(p.stdout.decode().strip().splitlines()[-1])
    if s["mismatches"] == 0:
        print("replay: the behaviour is now reproduced exactly by the library")
        return 0
    if hdr.get("owned"):
        from plan import OWNER
        v = json.loads(open(vio).read().splitlines()[0])
        op = v["behaviour"][v["index"]].get("op")
        if OWNER.get(op) != pid:
            print("replay: the behaviour now diverges at step %d (%s), an operation owned by %s, not %s"
                  % (v["index"], op, OWNER.get(op), pid))
            return 0
    print("VIOLATION property=%s replay=%s" % (pid, path))
    return 1
