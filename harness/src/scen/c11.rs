//! C11: symbol / reverse / window / chunk / chain iterators, whole runs and
//! step by step (the iterator state machine), on slices at every offset.
use crate::cx::Cx;
use crate::drv::{boundary_lens, sl, whole, Drv};
use serde_json::json;

pub const CONSUMERS: [&str; 15] = ["next", "fold", "for_each", "collect", "count", "last", "skip1", "step2", "peekable", "enumerate", "nth1", "take3", "zip", "overshoot_count", "overshoot_next"];

fn gcd(a: usize, b: usize) -> usize {
    if b == 0 { a } else { gcd(b, a % b) }
}

pub fn run<A: Cx>(d: &mut Drv<A>, scale: usize, all: bool) {
    let w = A::BITS as usize;
    let noff = 64 / gcd(w, 64);
    let mut lens = boundary_lens(w);
    if !all {
        lens.retain(|&n| n <= 64 / w + 2 || n % 7 == 0);
    }
    for _ in 0..scale.max(1) {
        for &n in &lens {
            let o = d.rng.below(noff);
            let t = d.rand_syms(o + n + 1);
            d.emit(json!({"op": "fromsyms", "dst": 0, "c": A::NAME, "via": "iter", "syms": t}));
            let n2 = d.rng.range(0, 9);
            let t2 = d.rand_syms(n2);
            d.emit(json!({"op": "fromsyms", "dst": 1, "c": A::NAME, "via": "iter", "syms": t2}));
            let x = sl(0, o, o + n);
            for kind in ["iter", "intoiter", "rev"] {
                d.emit(json!({"op": "itrun", "kind": kind, "x": x.clone(), "y": whole(1), "w": 0}));
            }
            let y = d.rand_src(1);
            d.emit(json!({"op": "itrun", "kind": "chain", "x": x.clone(), "y": y, "w": 0}));
            d.emit(json!({"op": "itrun", "kind": "chain", "x": whole(1), "y": x.clone(), "w": 0}));
            let mut ws: Vec<usize> = if all && n <= 40 { (1..=n + 2).collect() } else { vec![1, 2, 3, 64 / w - 1, 64 / w, 64 / w + 1, n.saturating_sub(1), n, n + 1, n + 2] };
            ws.retain(|&x| x >= 1 && x <= n + 2);
            ws.sort();
            ws.dedup();
            for &wd in &ws {
                d.emit(json!({"op": "itrun", "kind": "windows", "x": x.clone(), "y": whole(1), "w": wd}));
                d.emit(json!({"op": "itrun", "kind": "chunks", "x": x.clone(), "y": whole(1), "w": wd}));
                if d.rng.chance(1, 3) {
                    let k = *d.rng.pick(&["windowsvec", "chunksvec"]);
                    d.emit(json!({"op": "itrun", "kind": k, "x": x.clone(), "y": whole(1), "w": wd}));
                }
            }
            // the same iterators over a static literal / over the slice a k-mer dereferences to
            {
                let (fs, fl) = d.foreign_src();
                for kind in ["iter", "intoiter", "rev"] {
                    d.emit(json!({"op": "itrun", "kind": kind, "x": fs.clone(), "y": whole(1), "w": 0}));
                }
                d.emit(json!({"op": "itrun", "kind": "chain", "x": fs.clone(), "y": x.clone(), "w": 0}));
                d.emit(json!({"op": "itrun", "kind": "chain", "x": x.clone(), "y": fs.clone(), "w": 0}));
                for wd in [1, 2, 3, fl.max(1), fl + 1] {
                    d.emit(json!({"op": "itrun", "kind": "windows", "x": fs.clone(), "y": whole(1), "w": wd}));
                    d.emit(json!({"op": "itrun", "kind": "chunks", "x": fs.clone(), "y": whole(1), "w": wd}));
                }
            }
            // partially advanced iterators finished by consumers that iterate internally
            for _ in 0..6 {
                let kind = *d.rng.pick(&["iter", "rev", "windows", "chunks"]);
                let wd = d.rng.range(1, 4);
                let adv = d.rng.range(0, 4);
                let consumer = *d.rng.pick(&CONSUMERS);
                d.emit(json!({"op": "itmix", "kind": kind, "x": x.clone(), "w": wd, "adv": adv, "consumer": consumer}));
            }
            // the iterator state machine, step by step, two iterators interleaved with an edit
            if n <= 70 {
                let kinds = ["iter", "rev", "windows", "chunks", "chain"];
                let k0 = *d.rng.pick(&kinds);
                let k1 = *d.rng.pick(&kinds);
                let w0 = d.rng.range(1, n + 2);
                let w1 = d.rng.range(1, 4);
                d.emit(json!({"op": "itnew", "it": 0, "kind": k0, "x": x.clone(), "y": whole(1), "w": w0}));
                d.emit(json!({"op": "itnew", "it": 1, "kind": k1, "x": x.clone(), "y": whole(1), "w": w1}));
                let mut live = [true, true];
                let mut budget = 2 * n + 20;
                let mut edited = false;
                while (live[0] || live[1]) && budget > 0 {
                    budget -= 1;
                    let i = if live[0] && live[1] { d.rng.below(2) } else if live[0] { 0 } else { 1 };
                    let o = d.emit(json!({"op": "itnext", "it": i}));
                    if o["some"] != json!(true) {
                        live[i] = false;
                    }
                    if !edited && d.rng.chance(1, 6) {
                        // editing the source later must not disturb what the iterator was created over
                        edited = true;
                        d.emit(json!({"op": "clone", "dst": 2, "r": 0}));
                    }
                }
            }
        }
        d.reset();
    }
}
