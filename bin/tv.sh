#!/bin/bash
# tv.sh <trace.ndjson> : validate one trace with TLC, print verdict lines
t=$(readlink -f "$1"); md=$(mktemp -d /tmp/tlcmd.XXXXXX)
cd /verif/spec && TRACE="$t" JAVA_TOOL_OPTIONS="-Xss1g -Dtlc2.tool.queue.IStateQueue=StateDeque" timeout 600 tlc -workers 1 -metadir "$md" -cleanup -noGenerateSpecTE -config Trace.cfg Trace.tla 2>&1 | grep -v -E "^(Parsing|Semantic|Linting|Picked|TLC2|Running|Starting|Computing|Finished|Model checking completed|  |The |[0-9]+ states)" | grep -v -E "^(State [0-9]|/\\ |$)" | cut -c1-1500 | head -40
rm -rf "$md"
