SPECIFICATION MCSpec
CONSTANTS
    NR = 2
    NK = 1
    NT = 1
    NI = 1
    MaxLen = 1
CONSTRAINT Bounded
VIEW MCView
INVARIANT TypeOK
INVARIANT OrderIndependent
PROPERTY OneRegChanges
PROPERTY IterItemsFixed
CHECK_DEADLOCK FALSE
