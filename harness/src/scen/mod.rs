pub mod c01;
pub mod c02;
pub mod c03;
pub mod c04;
pub mod c05;
pub mod c06;
pub mod c07;
pub mod c08;
pub mod c11;
pub mod c12;
pub mod c13;
pub mod c18;
pub mod c19;
pub mod giant;
pub mod long;
pub mod sweep;

use crate::cx::Cx;
use crate::drv::Drv;
use crate::rng::Rng;

/// codecs a scenario applies to
pub fn codecs_of(name: &str) -> Vec<&'static str> {
    let all = crate::cx::CODECS.to_vec();
    match name {
        "c10" | "c10all" => vec!["dna", "text", "mdna", "miupac", "degen", "x3", "x7"],
        "c12" | "c12all" | "c14" | "c14all" | "c14order" => vec!["iupac"],
        "c12dna" | "c13" | "c19conv" => vec!["dna"],
        "c15" => vec!["dna", "iupac"],
        "c20" | "c20all" => vec!["mdna", "miupac"],
        _ => all,
    }
}

/// run scenario `name` for codec A; returns ndjson lines
pub fn run<A: Cx>(name: &str, seed: u64, scale: usize, stream: Option<&str>) -> Vec<String> {
    let mut d = Drv::<A>::new(Rng::new(seed ^ 0xB105_E9));
    if let Some(p) = stream {
        d.stream_to(p);
    }
    match name {
        "c01" => c01::run(&mut d, scale),
        "c01x" => c01::run_exhaustive(&mut d),
        "c02" => c02::run(&mut d, scale, false),
        "c02all" => c02::run(&mut d, scale, true),
        "c02alt" => c02::run_alt(&mut d),
        "c03" => c03::run(&mut d, scale),
        "c04" => c04::run(&mut d, scale, false),
        "c04all" => c04::run(&mut d, scale, true),
        "c05" => c05::run(&mut d),
        "c06" => c06::run(&mut d, scale),
        "c07" => c07::run(&mut d, scale, false, false),
        "c07all" => c07::run(&mut d, scale, true, false),
        "c08" => c08::run_c08(&mut d, scale, false),
        "c08all" => c08::run_c08(&mut d, scale, true),
        "c09" => c08::run_c09(&mut d, scale, false),
        "c09all" => c08::run_c09(&mut d, scale, true),
        "c09x" => c08::run_c09_exhaustive(&mut d, scale),
        "c10" => c08::run_c10(&mut d, scale, false),
        "c10all" => c08::run_c10(&mut d, scale, true),
        "c11" => c11::run(&mut d, scale, false),
        "c11all" => c11::run(&mut d, scale, true),
        "c12" => c12::run(&mut d, scale, false),
        "c12all" => c12::run(&mut d, scale, true),
        "c12dna" => c12::run_dna_singletons(&mut d),
        "c13" => c13::run_c13(&mut d, scale),
        "c14" => c13::run_c14(&mut d, &[0, 14]),
        "c14order" => c13::run_c14_order(&mut d),
        "c14all" => c13::run_c14(&mut d, &(0..16).collect::<Vec<_>>()),
        "c15" => c13::run_c15(&mut d, scale),
        "c18" => c18::run(&mut d, scale, false),
        "c18all" => c18::run(&mut d, scale, true),
        "c19conv" => c19::run_convert(&mut d, scale),
        "c19trim" => c19::run_trim(&mut d, scale, 60),
        "c20" => c07::run(&mut d, scale, false, true),
        "c20all" => c07::run(&mut d, scale, true, true),
        o if o.starts_with("giant_") => giant::run(&mut d, &o[6..], scale),
        o if o.starts_with("sweep_") => sweep::run(&mut d, &o[6..], scale),
        o if o.starts_with("long_") => {
            // long_<focus>: e.g. long_c06; world::canon_scenario looks at the focus
            long::run(&mut d, &o[5..], scale)
        }
        o => panic!("unknown scenario {o}"),
    }
    d.out
}
