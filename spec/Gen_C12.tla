------------------------------- MODULE Gen_C12 -------------------------------
(* Spec -> implementation for C12: all 256 IUPAC symbol pairs (and all short     *)
(* operand pairs) at independent nibble offsets through | , & and contains.      *)
EXTENDS MCBase, Json
CONSTANTS Offsets

VARIABLE hist
gvars == <<vars, hist>>
Ev(rec) == hist' = Append(hist, rec @@ [obs |-> out'])

GInit == Init /\ hist = <<>>
LoadX ==
    /\ Len(hist) = 0
    /\ \E x \in 0 .. 15 : \E oa \in Offsets : \E n \in {1, 2} :
          LET s == [i \in 1 .. oa |-> ((i * 5) % 16)] \o [i \in 1 .. n |-> (x + 3 * (i - 1)) % 16] IN
          FromSyms(0, "iupac", s) /\ Ev([op |-> "fromsyms", dst |-> 0, c |-> "iupac", via |-> "iter", syms |-> s, off |-> oa, n |-> n])
LoadY ==
    /\ Len(hist) = 1
    /\ \E y \in 0 .. 15 : \E ob \in Offsets :
          LET n == hist[1].n
              s == [i \in 1 .. ob |-> ((i * 7 + 1) % 16)] \o [i \in 1 .. n |-> (y + 5 * (i - 1)) % 16] \o <<15>> IN
          FromSyms(1, "iupac", s) /\ Ev([op |-> "fromsyms", dst |-> 1, c |-> "iupac", via |-> "vec", syms |-> s, off |-> ob])
Op ==
    /\ Len(hist) = 2
    /\ LET n == hist[1].n
           sx == [base |-> "reg", r |-> 0, path |-> <<[f |-> "r", a |-> hist[1].off, b |-> hist[1].off + n]>>]
           sy == [base |-> "reg", r |-> 1, path |-> <<[f |-> "r", a |-> hist[2].off, b |-> hist[2].off + n]>>]
           sy1 == [base |-> "reg", r |-> 1, path |-> <<[f |-> "r", a |-> hist[2].off, b |-> hist[2].off + n + 1]>>]
       IN  \/ \E t \in {"or", "and"} : \E via \in {"ref", "owned"} :
                 BitOp(2, sx, sy, t) /\ Ev([op |-> "bitop", dst |-> 2, x |-> sx, y |-> sy, t |-> t, via |-> via])
           \/ \E yy \in {sy, sy1} :
                 ContainsSl(sx, yy) /\ Ev([op |-> "contains", x |-> [kind |-> "slice", src |-> sx], y |-> yy])
GNext == LoadX \/ LoadY \/ Op
GSpec == GInit /\ [][GNext]_gvars
Emit == (Len(hist) = 3) => PrintT(<<"REPLAY", ToJson(hist)>>)
=============================================================================
