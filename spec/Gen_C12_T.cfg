SPECIFICATION GSpec
CONSTANTS
    NR = 3
    NK = 1
    NT = 1
    NI = 1
    Offsets = {0, 1, 7, 15, 16, 31}
INVARIANT Emit
CHECK_DEADLOCK FALSE
