SPECIFICATION MCSpec
CONSTANTS
    NR = 1
    NK = 1
    NT = 1
    NI = 1
CHECK_DEADLOCK FALSE
