------------------------------- MODULE Bits -------------------------------
(***************************************************************************)
(* Bit strings, little-endian packing and machine-word images.             *)
(*                                                                         *)
(* Written from the README: "All data is stored little-endian"; symbol i   *)
(* of a sequence over a codec of width w occupies bits [i*w, (i+1)*w) of   *)
(* the packed string, least significant bit first.                         *)
(*                                                                         *)
(* TLC integers are 32 bit, so a machine word is never a number here: it   *)
(* is a sequence of 0/1 (index 1 = bit 0) or a sequence of 16-bit limbs.   *)
(***************************************************************************)
EXTENDS Naturals, Sequences

Min2(a, b) == IF a <= b THEN a ELSE b
Max2(a, b) == IF a >= b THEN a ELSE b

\* bit i (0-based) of the natural number n
Bit(n, i) == (n \div (2 ^ i)) % 2

\* the w low bits of n, LSB first
BitsOf(n, w) == [i \in 1 .. w |-> Bit(n, i - 1)]

\* value of the n bits of b that start at 1-based position lo (n <= 30)
RECURSIVE ValAt(_, _, _)
ValAt(b, lo, n) ==
    IF n = 0 THEN 0 ELSE b[lo] + 2 * ValAt(b, lo + 1, n - 1)

\* like ValAt but positions past the end of b read as 0 (zero extension)
RECURSIVE ValAtZ(_, _, _)
ValAtZ(b, lo, n) ==
    IF n = 0 THEN 0
    ELSE (IF lo <= Len(b) THEN b[lo] ELSE 0) + 2 * ValAtZ(b, lo + 1, n - 1)

ValOf(b) == ValAt(b, 1, Len(b))

\* packed image of a list of symbol codes of width w
Pack(s, w) ==
    [i \in 1 .. (Len(s) * w) |-> Bit(s[((i - 1) \div w) + 1], (i - 1) % w)]

\* raw w-bit patterns held by a bit string (trailing partial chunk ignored)
Unpack(b, w) ==
    [j \in 1 .. (Len(b) \div w) |-> ValAt(b, (j - 1) * w + 1, w)]

\* number of 64-bit words needed for n bits
WordsFor(n) == (n + 63) \div 64

\* zero-extended image of a bit string as 16-bit limbs, 4 per 64-bit word,
\* least significant limb first: word k is limbs 4k+1 .. 4k+4
Limbs(b, nwords) == [k \in 1 .. (4 * nwords) |-> ValAtZ(b, (k - 1) * 16 + 1, 16)]

\* bits of an image given as 16-bit limbs
BitsOfLimbs(l) == [i \in 1 .. (16 * Len(l)) |-> Bit(l[((i - 1) \div 16) + 1], (i - 1) % 16)]

\* numeric order of two equally long LSB-first bit strings
RECURSIVE NumLessFrom(_, _, _)
NumLessFrom(a, b, i) ==
    IF i = 0 THEN FALSE
    ELSE IF a[i] # b[i] THEN a[i] < b[i]
    ELSE NumLessFrom(a, b, i - 1)
NumLess(a, b) == NumLessFrom(a, b, Len(a))

\* bit-lexicographic order from bit 0 (what a derived Ord on a bit vector does)
RECURSIVE BitLexLessFrom(_, _, _)
BitLexLessFrom(a, b, i) ==
    IF i > Len(a) \/ i > Len(b) THEN Len(a) < Len(b)
    ELSE IF a[i] # b[i] THEN a[i] < b[i]
    ELSE BitLexLessFrom(a, b, i + 1)
BitLexLess(a, b) == BitLexLessFrom(a, b, 1)

Rev(s) == [i \in 1 .. Len(s) |-> s[Len(s) + 1 - i]]
=============================================================================
