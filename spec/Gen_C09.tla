------------------------------- MODULE Gen_C09 -------------------------------
(* Spec -> implementation for C09: the k-mer word as a state machine.  TLC     *)
(* unfolds every history of Depth chained operations (rotations by boundary     *)
(* counts, pushes of both ends, reverse, complement, reverse-complement) from   *)
(* seed k-mers of boundary sizes on every storage type, for every codec.        *)
EXTENDS MCBase, Json
CONSTANTS Depth, GenCodecs

VARIABLE hist
gvars == <<vars, hist>>
Ev(rec) == hist' = Append(hist, rec @@ [obs |-> out'])

Two(c) == <<Items(c)[1].code, Items(c)[Len(Items(c))].code>>
Pattern(c, n) == [i \in 1 .. n |-> Two(c)[1 + ((i * i + i \div 3) % 2)]]
StName(st) == IF st = 128 THEN "u128" ELSE "usize"

\* boundary sizes: tiny, one short of / exactly a full 64-bit word, just past it and a full 128-bit word
Sizes(c) ==
    LET w == W(c) IN
    {<<1, 64>>, <<2, 64>>, <<3, 64>>, <<(64 \div w) - 1, 64>>, <<64 \div w, 64>>,
     <<64 \div w, 128>>, <<(64 \div w) + 1, 128>>, <<128 \div w, 128>>}

\* only K values the harness instantiates
Inst(K) == K \in (1 .. 33) \cup {42, 63, 64, 65, 127, 128}

N32(n) == <<n \div 65536, n % 65536>>

GInit == Init /\ hist = <<>>

Seed ==
    /\ Len(hist) = 0
    /\ \E c \in GenCodecs : \E sz \in Sizes(c) :
          /\ sz[1] >= 1 /\ Inst(sz[1])
          /\ LET p == Pattern(c, sz[1])
                 txt == Display(c, p)
             IN  KParse(0, c, sz[1], sz[2], txt)
                 /\ Ev([op |-> "kparse", kd |-> 0, c |-> c, k |-> sz[1], st |-> StName(sz[2]), bytes |-> txt])

Step ==
    /\ Len(hist) >= 1 /\ Len(hist) <= Depth
    /\ LET kv == kreg[0]  K == kv.k  c == kv.c IN
       \/ \E n \in {0, 1, K - 1, K, K + 1, 65536 + 1} : \E t \in {"rotl", "rotr"} :
             n >= 0 /\ KOp(0, 0, t, N32(n)) /\ Ev([op |-> "kop", kd |-> 0, ks |-> 0, t |-> t, arg |-> N32(n)])
       \/ \E x \in {Two(c)[1], Two(c)[2]} : \E t \in {"pushl", "pushr"} :
             KOp(0, 0, t, x) /\ Ev([op |-> "kop", kd |-> 0, ks |-> 0, t |-> t, arg |-> x])
       \/ /\ kv.st = 64
          /\ \E via \in {"copy", "inplace"} :
                KOp(0, 0, "rev", 0) /\ Ev([op |-> "kop", kd |-> 0, ks |-> 0, t |-> "rev", via |-> via, arg |-> 0])
       \/ /\ kv.st = 64 /\ c = "dna"
          /\ \E t \in {"comp", "revcomp"} : \E via \in {"copy", "inplace"} :
                KOp(0, 0, t, 0) /\ Ev([op |-> "kop", kd |-> 0, ks |-> 0, t |-> t, via |-> via, arg |-> 0])

GNext == Seed \/ Step
GSpec == GInit /\ [][GNext]_gvars
Emit == (Len(hist) = Depth + 1) => PrintT(<<"REPLAY", ToJson(hist)>>)
AllCanonical == \A k \in KRegIds : KCanonical(kreg[k])
=============================================================================
