//! C13: standard translation of every DNA codon at every bit offset;
//! C14: every IUPAC codon, reverse translation; C15: custom codon tables.
use crate::cx::Cx;
use crate::drv::{sl, whole, Drv};
use serde_json::{json, Value};

pub fn run_c13<A: Cx>(d: &mut Drv<A>, scale: usize) {
    assert_eq!(A::NAME, "dna");
    // 64 codons x all 32 offsets of the codon inside a word (incl. the two that straddle)
    for off in 0..32usize {
        let mut t = d.rand_syms(off);
        for c in 0..64u8 {
            t.extend_from_slice(&[c & 3, (c >> 2) & 3, (c >> 4) & 3]);
            // keep every codon at the same offset mod 32: pad to the next multiple of 32
            let pad = (32 - (t.len() - off) % 32) % 32;
            t.extend(d.rand_syms(pad));
        }
        d.emit(json!({"op": "fromsyms", "dst": 0, "c": "dna", "via": "iter", "syms": t}));
        for c in 0..64usize {
            let a = off + c * 32;
            d.emit(json!({"op": "toamino", "src": sl(0, a, a + 3)}));
        }
    }
    // codons held by k-mers (Kmer<Dna,3> derefs to a slice) and by owned copies / literals
    for c in 0..64u8 {
        let t: Vec<u8> = [c & 3, (c >> 2) & 3, (c >> 4) & 3].iter().map(|&x| b"ACGT"[x as usize]).collect();
        d.emit(json!({"op": "kparse", "kd": 0, "c": "dna", "k": 3, "st": "usize", "bytes": t}));
        d.emit(json!({"op": "toamino", "src": {"base": "kmer", "r": 0, "path": []}}));
        if c % 7 == 0 {
            let k = 3 + (c as usize % 5);
            let mut tt = t.clone();
            tt.extend(d.rand_text(k - 3));
            d.emit(json!({"op": "kparse", "kd": 1, "c": "dna", "k": k, "st": "usize", "bytes": tt}));
            d.emit(json!({"op": "toamino", "src": {"base": "kmer", "r": 1, "path": [{"f": "rt", "a": 0, "b": 3}]}}));
            d.emit(json!({"op": "parse", "dst": 2, "c": "dna", "entry": "str", "bytes": t}));
            d.emit(json!({"op": "toamino", "src": whole(2)}));
        }
    }
    // arbitrary sequences by windows(3) and chunks(3); wrong lengths never yield an amino acid
    for _ in 0..scale.max(1) {
        let n = d.rng.range(0, 110);
        let off = d.rng.below(33);
        let t = d.rand_syms(off + n + 2);
        d.emit(json!({"op": "fromsyms", "dst": 1, "c": "dna", "via": "vec", "syms": t}));
        d.emit(json!({"op": "itrun", "kind": "windows", "x": sl(1, off, off + n), "y": whole(1), "w": 3}));
        d.emit(json!({"op": "itrun", "kind": "chunks", "x": sl(1, off, off + n), "y": whole(1), "w": 3}));
        // the same triplets reached through skip / step_by / nth / fold on the chunk and window iterators
        for kind in ["chunks", "windows"] {
            let adv = d.rng.range(0, 3);
            let consumer = *d.rng.pick(&crate::scen::c11::CONSUMERS);
            d.emit(json!({"op": "itmix", "kind": kind, "x": sl(1, off, off + n), "w": 3, "adv": adv, "consumer": consumer}));
        }
        let mut i = 0;
        while i + 3 <= n {
            // window i and (every third) chunk i/3 are the same triplet
            d.emit(json!({"op": "toamino", "src": {"base": "reg", "r": 1, "path": [{"f": "r", "a": off, "b": off + n}, {"f": "r", "a": i, "b": i + 3}]}}));
            i += 1 + d.rng.below(3);
        }
        for len in [0usize, 1, 2, 4, 5] {
            if off + len <= off + n + 2 {
                d.emit(json!({"op": "toamino", "src": sl(1, off, off + len)}));
            }
        }
    }
    // wrong lengths that alias 3 modulo a power of two must not yield an amino acid either
    let long = d.rand_syms(1100);
    d.emit(json!({"op": "fromsyms", "dst": 3, "c": "dna", "via": "iter", "syms": long}));
    for n in (6..=40).chain([35, 67, 131, 259, 515, 1027]) {
        let a = d.rng.below(30);
        d.emit(json!({"op": "toamino", "src": sl(3, a, a + n)}));
    }
}

/// the standard table's lookup structures are built lazily on first use: this scenario asks for a
/// reverse translation FIRST (a fresh process), then forward, then reverse again
pub fn run_c14_order<A: Cx>(d: &mut Drv<A>) {
    assert_eq!(A::NAME, "iupac");
    let aminos = amino_codes();
    for &aa in aminos.iter().rev() {
        d.emit(json!({"op": "trytocodon", "aa": aa}));
    }
    for c in (0..4096usize).step_by(7) {
        let t = vec![(c & 15) as u8, ((c >> 4) & 15) as u8, ((c >> 8) & 15) as u8];
        d.emit(json!({"op": "fromsyms", "dst": 0, "c": "iupac", "via": "iter", "syms": t}));
        d.emit(json!({"op": "trytoamino", "src": whole(0)}));
    }
    for &aa in &aminos {
        d.emit(json!({"op": "trytocodon", "aa": aa}));
    }
    // the same few codons asked again and again in random order (answers must not depend on what was
    // asked before): pools of 2..5 codons, determinate and ambiguous ones mixed, forward and reverse calls
    for _ in 0..40 {
        let np = d.rng.range(2, 5);
        let pool: Vec<Vec<u8>> = (0..np)
            .map(|i| {
                if i % 2 == 0 {
                    // a determinate one: unambiguous bases, or a four-fold degenerate third position
                    let b = [8u8, 4, 2, 1];
                    vec![*d.rng.pick(&b), *d.rng.pick(&b), *d.rng.pick(&[8u8, 4, 2, 1, 15, 10, 5])]
                } else {
                    d.rand_syms(3)
                }
            })
            .collect();
        let mut t = Vec::new();
        for c in &pool {
            t.extend_from_slice(c);
        }
        d.emit(json!({"op": "fromsyms", "dst": 1, "c": "iupac", "via": "iter", "syms": t}));
        for _ in 0..30 {
            let i = d.rng.below(np);
            d.emit(json!({"op": "trytoamino", "src": sl(1, 3 * i, 3 * i + 3)}));
            if d.rng.chance(1, 6) {
                let aa = *d.rng.pick(&aminos);
                d.emit(json!({"op": "trytocodon", "aa": aa}));
            }
        }
    }
}

pub fn run_c14<A: Cx>(d: &mut Drv<A>, offsets: &[usize]) {
    assert_eq!(A::NAME, "iupac");
    // all 16^3 codons, laid out 16 codons per register
    for &off in offsets {
        for hi in 0..256usize {
            let mut t = d.rand_syms(off);
            for lo in 0..16usize {
                let c = hi * 16 + lo;
                t.extend_from_slice(&[(c & 15) as u8, ((c >> 4) & 15) as u8, ((c >> 8) & 15) as u8]);
            }
            t.push(0);
            d.emit(json!({"op": "fromsyms", "dst": 0, "c": "iupac", "via": "iter", "syms": t}));
            for lo in 0..16usize {
                let a = off + 3 * lo;
                d.emit(json!({"op": "trytoamino", "src": sl(0, a, a + 3)}));
            }
            if hi % 32 == 0 {
                for len in [0usize, 1, 2, 4, 5] {
                    d.emit(json!({"op": "trytoamino", "src": sl(0, off, off + len)}));
                }
            }
        }
    }
    // "codons of any other length are reported invalid": every length up to 140 and lengths that
    // alias 3 modulo a power of two (a truncated or wrapped length test would let them through)
    let mut invalid: Vec<usize> = (0..=140).filter(|&n| n != 3).collect();
    invalid.extend([195, 259, 515, 1027, 2051]);
    let long = d.rand_syms(2060);
    d.emit(json!({"op": "fromsyms", "dst": 2, "c": "iupac", "via": "iter", "syms": long}));
    for n in invalid {
        let a = d.rng.below(9);
        d.emit(json!({"op": "trytoamino", "src": sl(2, a, a + n)}));
    }
    // reverse translation of all 21 residues
    let aminos: Vec<u8> = {
        use bio_seq::prelude::*;
        Amino::items().map(|x| x.to_bits()).collect()
    };
    for &aa in &aminos {
        let o = d.emit(json!({"op": "trytocodon", "aa": aa}));
        if o["k"] == json!("ok") {
            // ... and the codon translates back
            d.emit(json!({"op": "fromsyms", "dst": 1, "c": "iupac", "via": "iter", "syms": o["codon"]}));
            d.emit(json!({"op": "trytoamino", "src": whole(1)}));
        }
    }
}

fn amino_codes() -> Vec<u8> {
    use bio_seq::prelude::*;
    Amino::items().map(|x| x.to_bits()).collect()
}

pub fn run_c15<A: Cx>(d: &mut Drv<A>, scale: usize) {
    let aminos = amino_codes();
    for round in 0..scale.max(1) {
        let clen = 1 + round % 4; // codon lengths 1..4
        // distinct keys
        // mostly small maps; now and then one that makes the hash map grow (all codons of this length)
        let space = d.codes().len().pow(clen as u32);
        let nkeys = if round % 5 == 4 { space.min(64) } else { d.rng.range(0, 9).min(space) };
        let mut keys: Vec<Vec<u8>> = Vec::new();
        while keys.len() < nkeys {
            let k = d.rand_syms(clen);
            if !keys.contains(&k) {
                keys.push(k);
            }
        }
        // values drawn from a few residues so that 0 / 1 / 2 / 3+ preimages all occur
        let npool = if nkeys > 9 { 7 } else { 3 };
        let pool: Vec<u8> = (0..npool).map(|_| *d.rng.pick(&aminos)).collect();
        // keys are built in different ways: parsed/collected, truncated, drained, copied out of an offset window
        let entries: Vec<Value> = keys
            .iter()
            .map(|k| json!({"k": k, "v": *d.rng.pick(&pool), "mk": *d.rng.pick(&["collect", "truncate", "remove", "offset", "clearpush"])}))
            .collect();
        // repeated construction: a fresh RandomState (iteration order) each time
        for rep in 0..4 {
            let t = rep % 4;
            let via = ["hashmap", "array", "vec", "btree"][rep % 4];
            d.emit(json!({"op": "tablenew", "t": t, "c": A::NAME, "entries": entries, "via": via}));
            // queries presented as slices at offsets
            let off = d.rng.below(40);
            let mut parent = d.rand_syms(off);
            let mut spans = Vec::new();
            for k in &keys {
                spans.push((parent.len(), parent.len() + clen));
                parent.extend_from_slice(k);
            }
            // non-keys: random codons and wrong lengths
            for _ in 0..4 {
                let l = d.rng.range(0, 5);
                spans.push((parent.len(), parent.len() + l));
                parent.extend(d.rand_syms(l));
            }
            d.emit(json!({"op": "fromsyms", "dst": 0, "c": A::NAME, "via": "iter", "syms": parent}));
            for (a, b) in spans {
                d.emit(json!({"op": "tableamino", "t": t, "src": sl(0, a, b)}));
            }
            for &aa in pool.iter().chain(aminos.iter().take(5)) {
                d.emit(json!({"op": "tablecodon", "t": t, "aa": aa}));
            }
        }
        // ---- tables whose keys have DIFFERENT lengths, up to and beyond a machine word, and are related
        // bit-wise: a short key, the same key zero-extended to a full word, and the same key followed by the
        // symbol whose pattern is 1 and then zeros (as integers these differ only in one high bit)
        if round % 3 == 2 {
            let w = A::BITS as usize;
            let full = 64 / w;
            let pats = d.patterns();
            let zero = if pats.contains(&0) { Some(A::try_from_bits(0).unwrap().to_bits()) } else { None };
            let one = if pats.contains(&1) { Some(A::try_from_bits(1).unwrap().to_bits()) } else { None };
            let mut keys: Vec<Vec<u8>> = Vec::new();
            let mut push = |keys: &mut Vec<Vec<u8>>, k: Vec<u8>| {
                if !keys.contains(&k) {
                    keys.push(k);
                }
            };
            for l in [1usize, 2, 3] {
                let k = d.rand_syms(l);
                push(&mut keys, k.clone());
                if let (Some(z), Some(o)) = (zero, one) {
                    for total in [full - 1, full, full + 1] {
                        if total > l {
                            let mut a = k.clone();
                            a.resize(total, z);
                            push(&mut keys, a);
                            let mut b = k.clone();
                            b.push(o);
                            b.resize(total.max(l + 1), z);
                            push(&mut keys, b);
                        }
                    }
                }
            }
            for l in [full - 1, full, full + 1, 2 * full] {
                let k = d.rand_syms(l);
                push(&mut keys, k);
            }
            // leave some of the related keys OUT of the table: they are queried as non-keys
            let mut nonkeys: Vec<Vec<u8>> = Vec::new();
            let mut kept: Vec<Vec<u8>> = Vec::new();
            for (i, k) in keys.into_iter().enumerate() {
                if i % 3 == 1 { nonkeys.push(k) } else { kept.push(k) }
            }
            let pool: Vec<u8> = (0..4).map(|_| *d.rng.pick(&aminos)).collect();
            let entries: Vec<Value> = kept.iter().map(|k| json!({"k": k, "v": *d.rng.pick(&pool), "mk": "collect"})).collect();
            for rep in 0..2 {
                let via = ["hashmap", "vec"][rep % 2];
                d.emit(json!({"op": "tablenew", "t": rep, "c": A::NAME, "entries": entries, "via": via}));
                let off = d.rng.below(40);
                let mut parent = d.rand_syms(off);
                let mut spans = Vec::new();
                for k in kept.iter().chain(nonkeys.iter()) {
                    spans.push((parent.len(), parent.len() + k.len()));
                    parent.extend_from_slice(k);
                }
                parent.extend(d.rand_syms(1));
                d.emit(json!({"op": "fromsyms", "dst": 0, "c": A::NAME, "via": "iter", "syms": parent}));
                for (a, b) in spans {
                    d.emit(json!({"op": "tableamino", "t": rep, "src": sl(0, a, b)}));
                }
                for &aa in &pool {
                    d.emit(json!({"op": "tablecodon", "t": rep, "aa": aa}));
                }
            }
        }
        if round % 8 == 7 {
            d.reset();
        }
    }
}
