------------------------------- MODULE Gen_C06 -------------------------------
(* Spec -> implementation for C06: TLC unfolds EVERY history of Depth edits   *)
(* (boundary arguments, argument slices that are windows of another register) *)
(* from seeds that sit at a machine-word boundary, for every codec, and prints *)
(* each history with the specification's `out` after every step.  The harness  *)
(* replays each line into the real library and compares step by step.          *)
EXTENDS MCBase, Json
CONSTANTS Depth, GenCodecs, SeedSel

VARIABLE hist
gvars == <<vars, hist>>

Ev(rec) == hist' = Append(hist, rec @@ [obs |-> out'])

\* two symbols per codec: the first and the last of the documented list
Two(c) == <<Items(c)[1].code, Items(c)[Len(Items(c))].code>>
Pattern(c, n) == [i \in 1 .. n |-> Two(c)[1 + ((i * i + i \div 3) % 2)]]

\* seed lengths: empty, three, one short of / one past a 64-bit word
SeedLens(c) ==
    IF SeedSel = "all" THEN {0, 3, (64 \div W(c)) - 1, (64 \div W(c)) + 1}
    ELSE {3, (64 \div W(c)) - 1}

\* boundary positions of a sequence of length n
Pos(n) == {0, n \div 2, n} \cap (0 .. n)
\* a handful of range steps of every form, touching both ends
StepsB(n) ==
    {st \in StepsIn(n) :
        \/ st.f = "r" /\ <<st.a, st.b>> \in {<<0, 1>>, <<1, n>>, <<n \div 2, n \div 2 + 1>>}
        \/ st.f = "ri" /\ <<st.a, st.b>> \in {<<0, 0>>, <<n \div 2, n - 1>>}
        \/ st.f = "rt" /\ st.b = n - 1
        \/ st.f = "rti" /\ st.b = 0
        \/ st.f = "rf" /\ st.a \in {1, n}
        \/ st.f = "full"}
SourcesB(r) ==
    LET n == Len(reg[r].s) IN
    {WholeReg(r)} \cup
    {[base |-> "reg", r |-> r, path |-> <<st>>] :
        st \in {s \in StepsIn(n) : (s.f = "r" /\ <<s.a, s.b>> = <<1, n - 1>>)
                                    \/ (s.f = "rf" /\ s.a = n \div 2)
                                    \/ (s.f = "idx" /\ s.a = n - 1)}}

Seeded == Len(hist) >= 2
Done == Len(hist) = Depth + 2

GInit == Init /\ hist = <<>>

Seed ==
    \/ /\ Len(hist) = 0
       /\ \E c \in GenCodecs : \E n \in SeedLens(c) :
             FromSyms(0, c, Pattern(c, n)) /\ Ev([op |-> "fromsyms", dst |-> 0, c |-> c, via |-> "iter", syms |-> Pattern(c, n)])
    \/ /\ Len(hist) = 1
       /\ \E n \in {4} :
             LET c == reg[0].c IN
             FromSyms(1, c, Pattern(c, n + 1)) /\ Ev([op |-> "fromsyms", dst |-> 1, c |-> c, via |-> "vec", syms |-> Pattern(c, n + 1)])

EditStep ==
    /\ Seeded /\ ~Done
    /\ \E d \in {0, 1} :
          LET o == 1 - d  n == Len(reg[d].s)  c == reg[d].c IN
          \/ \E x \in {Two(c)[1], Two(c)[2]} : Push(d, x) /\ Ev([op |-> "push", dst |-> d, x |-> x])
          \/ Extend(d, <<Two(c)[2], Two(c)[1]>>) /\ Ev([op |-> "extend", dst |-> d, syms |-> <<Two(c)[2], Two(c)[1]>>])
          \/ Clear(d) /\ Ev([op |-> "clear", dst |-> d])
          \/ \E k \in Pos(n) : Truncate(d, k) /\ Ev([op |-> "truncate", dst |-> d, n |-> k])
          \/ \E st \in StepsB(n) : RemoveRange(d, st) /\ Ev([op |-> "remove", dst |-> d, range |-> st])
          \/ \E src \in SourcesB(o) :
                \/ AppendSl(d, src) /\ Ev([op |-> "append", dst |-> d, src |-> src])
                \/ PrependSl(d, src) /\ Ev([op |-> "prepend", dst |-> d, src |-> src])
                \/ \E i \in Pos(n) : InsertSl(d, i, src) /\ Ev([op |-> "insert", dst |-> d, i |-> i, src |-> src])
          \/ Clone(d, o) /\ Ev([op |-> "clone", dst |-> d, r |-> o])
          \/ \E src \in SourcesB(o) : ToOwned(d, src) /\ Ev([op |-> "toowned", dst |-> d, src |-> src, via |-> "to_owned"])

\* the last step re-observes the register that was NOT edited last
GNext == Seed \/ EditStep
GSpec == GInit /\ [][GNext]_gvars

Emit == Done => PrintT(<<"REPLAY", ToJson(hist)>>)
=============================================================================
