------------------------------- MODULE Trace -------------------------------
(***************************************************************************)
(* Trace specification: validates a recorded execution of the REAL         *)
(* library against BioSeq.  Each line of the ndjson trace is one public    *)
(* call: its name, its arguments, and everything the caller observed.      *)
(* A line is accepted iff the corresponding BioSeq action is enabled with  *)
(* the logged arguments and the observation equals the action's `out`.     *)
(*                                                                         *)
(* Acceptance: TLC's diameter reaches Len(Rec)+1.  The first unmatched     *)
(* line is printed with the expected observation.                          *)
(***************************************************************************)
EXTENDS BioSeq, Json, IOUtils

Rec == ndJsonDeserialize(IOEnv.TRACE)

VARIABLE l
tvars == <<vars, l>>

ev == Rec[l]

Has(f) == f \in DOMAIN ev

\* the observation must equal the specification's prediction
Match(expected) ==
    IF ev.obs = expected THEN TRUE
    ELSE /\ PrintT(<<"MISMATCH", l, ev.op, "expected", expected, "observed", ev.obs>>)
         /\ FALSE

\* a listed known finding: bin/check marks the line; the deviation is taken
\* as observed so that the REST of the trace is still validated
Deviation == Has("known")

IsOp(o) == l <= Len(Rec) /\ ev.op = o /\ ~Deviation /\ l' = l + 1

\* operands of comparisons / hashing: a sequence value in some representation
Operand(o) ==
    IF o.kind = "str" THEN [str |-> o.bytes]
    ELSE IF o.kind = "kmer" THEN [c |-> kreg[o.r].c, s |-> KSyms(kreg[o.r])]
    ELSE LET x == Resolve(o.src) IN [c |-> x.c, s |-> x.s]

OperandOK(o) == IF o.kind \in {"str", "kmer"} THEN TRUE ELSE Resolve(o.src).ok

\* storage types by name
StBits(name) == IF name = "u128" THEN 128 ELSE 64

TraceInit == Init /\ l = 1

Reset ==
    /\ IsOp("reset")
    /\ reg' = [r \in RegIds |-> Nil]
    /\ kreg' = [r \in KRegIds |-> KNil]
    /\ treg' = [r \in TRegIds |-> TNil]
    /\ itr' = [r \in IRegIds |-> INil]
    /\ feed' = <<>>
    /\ out' = [init |-> TRUE]

\* a compiled static literal: its value is what parsing its text gives
TLit == IsOp("lit") /\ Parse(ev.dst, ev.c, ev.bytes) /\ Match(out')
TParse == IsOp("parse") /\ Parse(ev.dst, ev.c, ev.bytes) /\ Match(out')
TTrim == IsOp("trim") /\ Trim(ev.dst, ev.c, ev.bytes) /\ Match(out')
TFromSyms == IsOp("fromsyms") /\ FromSyms(ev.dst, ev.c, ev.syms) /\ Match(out')
TNew == IsOp("new") /\ NewSeq(ev.dst, ev.c) /\ Match(out')
TClone == IsOp("clone") /\ Clone(ev.dst, ev.r) /\ Match(out')
TToOwned == IsOp("toowned") /\ ToOwned(ev.dst, ev.src) /\ Match(out')
TFromRaw ==
    /\ IsOp("fromraw")
    /\ (IF Has("nl") THEN FromRawFar(ev.nl) ELSE FromRaw(ev.dst, ev.c, ev.n, ev.limbs))
    /\ Match(out')
TSerde == IsOp("serde") /\ SerdeRT(ev.dst, ev.r) /\ Match([v |-> out', eq |-> TRUE, hasheq |-> TRUE])

TPush == IsOp("push") /\ Push(ev.dst, ev.x) /\ Match(out')
TExtend == IsOp("extend") /\ Extend(ev.dst, ev.syms) /\ Match(out')
TClear == IsOp("clear") /\ Clear(ev.dst) /\ Match(out')
TTruncate == IsOp("truncate") /\ Truncate(ev.dst, ev.n) /\ Match(out')
TAppend == IsOp("append") /\ AppendSl(ev.dst, ev.src) /\ Match(out')
TPrepend == IsOp("prepend") /\ PrependSl(ev.dst, ev.src) /\ Match(out')
TInsert == IsOp("insert") /\ InsertSl(ev.dst, ev.i, ev.src) /\ Match(out')
TRemove == IsOp("remove") /\ RemoveRange(ev.dst, ev.range) /\ Match(out')

TInPlace == IsOp("inplace") /\ InPlace(ev.dst, ev.t) /\ Match(out')
TCopying == IsOp("copying") /\ Copying(ev.dst, ev.src, ev.t) /\ Match(out')
TBitOp == IsOp("bitop") /\ BitOp(ev.dst, ev.x, ev.y, ev.t) /\ Match(out')
TContains == IsOp("contains") /\ ContainsSl(ev.x.src, ev.y) /\ Match(out')

TStr == IsOp("str") /\ ToText(ev.src) /\ Match(out')
TFar == IsOp("far") /\ Far(ev.src, ev.how, ev.a, ev.b) /\ Match(out')
TObs == IsOp("obs") /\ Obs(ev.src, ev.gets, ev.nths) /\ Match(out')

TEq == IsOp("eq") /\ OperandOK(ev.x) /\ OperandOK(ev.y)
       /\ Eq(Operand(ev.x), Operand(ev.y)) /\ Match(out')
THash ==
    /\ IsOp("hash") /\ OperandOK(ev.x)
    /\ LET a == Operand(ev.x)
           key == <<a.c, a.s>>
       IN  /\ (key \in DOMAIN feed /\ feed[key] # ev.obs.feed) =>
                  PrintT(<<"MISMATCH", l, "hash", "expected the feed bound to this content", feed[key],
                           "observed", ev.obs.feed>>)
           /\ HashObs(a, ev.obs.feed)
TMapGet == IsOp("mapget")
           /\ MapGet([i \in 1 .. Len(ev.keys) |-> reg[ev.keys[i]].s], Resolve(ev.q).s)
           /\ Match(out')
TCmp == IsOp("cmp") /\ Cmp(Operand(ev.x), Operand(ev.y)) /\ Match(out')

TToInt ==
    /\ IsOp("toint")
    /\ LET e == ToIntRes(ev.src, ev.fallible, ev.width)
       IN  IF "free" \in DOMAIN e THEN TRUE ELSE Match(e)
    /\ ToInt(ev.src, ev.fallible, ev.width, ev.obs)
TIntoRaw == IsOp("intoraw") /\ IntoRaw(ev.r, ev.obs.limbs)
            /\ IF out'.ok THEN TRUE
               ELSE /\ PrintT(<<"MISMATCH", l, "intoraw", "expected image of",
                                Limbs(Pack(reg[ev.r].s, W(reg[ev.r].c)), WordsFor(Len(reg[ev.r].s) * W(reg[ev.r].c))),
                                "observed", ev.obs.limbs>>)
                    /\ FALSE

TKFrom == IsOp("kfrom") /\ KFrom(ev.kd, ev.src, ev.k, StBits(ev.st)) /\ Match(out')
TKParse == IsOp("kparse") /\ KParse(ev.kd, ev.c, ev.k, StBits(ev.st), ev.bytes) /\ Match(out')
TKFromInt == IsOp("kfromint") /\ KFromInt(ev.kd, ev.c, ev.k, StBits(ev.st), ev.limbs) /\ Match(out')
TKOp == IsOp("kop") /\ KOp(ev.kd, ev.ks, ev.t, ev.arg) /\ Match(out')
TKSerde == IsOp("kserde") /\ KObs(ev.ks)
           /\ Match([kv |-> out'.kv, eq |-> TRUE, hasheq |-> TRUE])
TKObs == IsOp("kobs") /\ KObs(ev.ks) /\ Match(out')
TKToSeq == IsOp("ktoseq") /\ KToSeq(ev.dst, ev.ks) /\ Match(out')
TKmers == IsOp("kmers") /\ Kmers(ev.src, ev.k) /\ Match(out')
TKMinMax == IsOp("kminmax") /\ KMinMax(ev.src, ev.k, ev.which) /\ Match(out')

TItNew == IsOp("itnew") /\ ItNew(ev.it, ev.kind, ev.x, ev.y, ev.w) /\ Match(out')
TItNext == IsOp("itnext") /\ ItNext(ev.it) /\ Match(out')
TItMix == IsOp("itmix") /\ ItMix(ev.kind, ev.x, ev.w, ev.adv, ev.consumer) /\ Match(out')
TToIntTake == IsOp("tointtake") /\ ToIntTake(ev.r) /\ Match(out')
TItRun == IsOp("itrun") /\ ItRun(ev.kind, ev.x, ev.y, ev.w) /\ Match(out')

TConvert == IsOp("convert") /\ Convert(ev.src, ev.to) /\ Match(out')
TTextBase == IsOp("textbase") /\ TextBaseToDna(ev.byte) /\ Match(out')

TToAmino ==
    /\ IsOp("toamino")
    /\ LET e == ToAminoRes(ev.src)
       IN  IF "free" \in DOMAIN e THEN TRUE ELSE Match(e)
    /\ ToAmino(ev.src, ev.obs)
TTryToAmino ==
    /\ IsOp("trytoamino")
    /\ LET e == TryToAminoRes(ev.src)
       IN  IF e.k = "free" THEN "k" \in DOMAIN ev.obs ELSE Match(e)
    /\ out' = ev.obs
    /\ OnlyOut
TTryToCodon == IsOp("trytocodon") /\ TryToCodon(ev.aa) /\ Match(out')

\* the hash map's iteration order is not observable: construction is
\* TableNew . (all folds); the inverse is then read off the folded state
RECURSIVE FoldAll(_)
FoldAll(tb) ==
    IF tb.pending = {} THEN tb
    ELSE LET key == CHOOSE key \in tb.pending : TRUE
             aa == tb.m[key]
             entry == IF aa \in DOMAIN tb.inv THEN [some |-> FALSE, codon |-> <<>>]
                      ELSE [some |-> TRUE, codon |-> key]
         IN  FoldAll([tb EXCEPT !.pending = @ \ {key},
                                !.inv = [a \in (DOMAIN tb.inv) \cup {aa} |->
                                            IF a = aa THEN entry ELSE tb.inv[a]]])
TTableNew ==
    /\ IsOp("tablenew")
    /\ LET m == TableMap(ev.entries)
       IN  treg' = [treg EXCEPT ![ev.t] = FoldAll([c |-> ev.c, m |-> m, pending |-> DOMAIN m, inv |-> <<>>])]
    /\ out' = [ok |-> TRUE]
    /\ UNCHANGED <<reg, kreg, itr, feed>>
    /\ Match(out')
TTableAmino == IsOp("tableamino") /\ TableAmino(ev.t, ev.src) /\ Match(out')
TTableCodon ==
    /\ IsOp("tablecodon")
    /\ TableCodon(ev.t, ev.aa)
    /\ out' = InvLookup(treg[ev.t], ev.aa)      \* folded inverse agrees with the preimage count
    /\ Match(out')

(***************************************************************************)
(* C05: the codec tables, one event per (codec, byte) cell; `cellctr`      *)
(* style counting is done by the CellOrder check: events must arrive in    *)
(* the canonical order, so a skipped cell is itself a rejection.           *)
(***************************************************************************)
TCell ==
    /\ IsOp("cell")
    /\ (l > 1 /\ Rec[l - 1].op = "cell" /\ Rec[l - 1].c = ev.c) => ev.b = Rec[l - 1].b + 1
    /\ (l = 1 \/ Rec[l - 1].op # "cell" \/ Rec[l - 1].c # ev.c) => ev.b = 0
    /\ Cell(ev.c, ev.b)
    /\ Match(out')

TCodecInfo ==
    /\ IsOp("codecinfo")
    /\ (l > 1 /\ Rec[l - 1].op = "cell") => Rec[l - 1].b = 255      \* the 256 cells before it were complete
    /\ CodecInfo(ev.c)
    /\ Match(out')

TLitProg == IsOp("litprog") /\ LitProg(ev.macro, ev.bytes) /\ Match(out')
TKmerLit == IsOp("kmerlit") /\ KmerLit(ev.bytes, StBits(ev.st)) /\ Match(out')
TLitVerdict == IsOp("litverdict") /\ LitVerdict(ev.macro, ev.bytes) /\ Match(out')
TDeriveProg == IsOp("derive") /\ DeriveProg(ev.decl) /\ Match(out')
TDeriveVerdict == IsOp("deriveverdict") /\ DeriveVerdict(ev.decl, ev.malformed) /\ Match(out')

\* the > 2^32-bit sequence (Giant.tla); ev.c names the codec
TGObs == IsOp("gobs") /\ GObs(ev.c, ev.path, ev.probes, IF ev.how \in {"get", "seqget", "iternth"} THEN "get" ELSE "nth") /\ Match(out')
TGView == IsOp("gview") /\ GViewA(ev.c, ev.path) /\ Match(out')
TGIt == IsOp("git") /\ GIt(ev.c, ev.path, ev.kind, ev.w, ev.skip, ev.take) /\ Match(out')
TGEdit == IsOp("gedit") /\ GEdit(ev.c, ev.e, ev.probes) /\ Match(out')
TGInt == IsOp("gint") /\ GInt(ev.c, ev.path) /\ Match(out')
TGEq == IsOp("geq") /\ GEq(ev.c, ev.a, ev.b) /\ Match(out')
TGCopy == IsOp("gcopy") /\ GCopy(ev.c, ev.path, ev.t) /\ Match(out')
TGKmer == IsOp("gkmer") /\ GKmer(ev.c, ev.path, ev.k) /\ Match(out')

\* a known finding taken as observed
TDeviation ==
    /\ l <= Len(Rec) /\ Deviation /\ l' = l + 1
    /\ PrintT(<<"KNOWN", l, ev.known>>)
    /\ IF Has("dst") /\ "v" \in DOMAIN ev.obs
       THEN reg' = [reg EXCEPT ![ev.dst] = [c |-> ev.c, s |-> ev.obs.v.syms]]
       ELSE UNCHANGED reg
    /\ out' = ev.obs
    /\ UNCHANGED <<kreg, treg, itr, feed>>

TraceNext ==
    \/ Reset
    \/ TLit \/ TParse \/ TTrim \/ TFromSyms \/ TNew \/ TClone \/ TToOwned \/ TFromRaw \/ TSerde
    \/ TPush \/ TExtend \/ TClear \/ TTruncate \/ TAppend \/ TPrepend \/ TInsert \/ TRemove
    \/ TInPlace \/ TCopying \/ TBitOp \/ TContains
    \/ TStr \/ TFar \/ TObs \/ TEq \/ THash \/ TMapGet \/ TCmp \/ TToInt \/ TIntoRaw
    \/ TKFrom \/ TKParse \/ TKFromInt \/ TKOp \/ TKObs \/ TKSerde \/ TKToSeq \/ TKmers \/ TKMinMax
    \/ TItNew \/ TItNext \/ TItRun \/ TItMix \/ TToIntTake
    \/ TConvert \/ TTextBase
    \/ TToAmino \/ TTryToAmino \/ TTryToCodon \/ TTableNew \/ TTableAmino \/ TTableCodon
    \/ TCell \/ TCodecInfo
    \/ TGObs \/ TGView \/ TGIt \/ TGEdit \/ TGInt \/ TGEq \/ TGCopy \/ TGKmer
    \/ TLitProg \/ TKmerLit \/ TLitVerdict \/ TDeriveProg \/ TDeriveVerdict
    \/ TDeviation

TraceSpec == TraceInit /\ [][TraceNext]_tvars

\* invariants evaluated at EVERY state of every validated trace
TraceInv == TypeOK

TraceAccepted ==
    LET d == TLCGet("stats").diameter
    IN  IF d - 1 = Len(Rec) THEN PrintT(<<"ACCEPTED", Len(Rec)>>)
        ELSE PrintT(<<"REJECTED", d, Len(Rec)>>) /\ FALSE
=============================================================================
