---------------------------- MODULE TransformLaws ----------------------------
(***************************************************************************)
(* Unbounded proof (TLAPS) of the sequence-level laws of C07 / C20, for    *)
(* ANY length n, ANY symbol set and ANY per-symbol table f:                *)
(*   - reversal is an involution;                                          *)
(*   - a position-wise transform (complement, mask, unmask) commutes with  *)
(*     reversal, so reverse-complement is the same in either order;        *)
(*   - an involutive table (complement; case toggle of the 4-bit codec)    *)
(*     lifts to an involution on sequences, an idempotent table (mask /    *)
(*     unmask of the 5-bit codec) to an idempotent operation;              *)
(*   - hence reverse-complement is an involution;                          *)
(*   - a per-symbol encoding with a left inverse round-trips (C01, C18).   *)
(* Rev and Map are SeqOps.RevSeq / CompSeq / MaskSeq with n = Len(s); what *)
(* the TABLES satisfy (comp o comp = id, ...) is finite and checked by TLC *)
(* on every codec (MC_C05, MC_C07, MC_C20).                                *)
(***************************************************************************)
EXTENDS Naturals, TLAPS

CONSTANTS Sym, n
ASSUME Len == n \in Nat

Seqs == [1 .. n -> Sym]
Rev(s) == [i \in 1 .. n |-> s[n + 1 - i]]
Map(f, s) == [i \in 1 .. n |-> f[s[i]]]

THEOREM RevInvolution == \A s \in Seqs : Rev(Rev(s)) = s
<1> TAKE s \in Seqs
<1>1. \A i \in 1 .. n : n + 1 - i \in 1 .. n /\ n + 1 - (n + 1 - i) = i
  BY Len
<1>2. Rev(Rev(s)) = [i \in 1 .. n |-> s[i]]
  BY <1>1 DEF Rev
<1> QED
  BY <1>2 DEF Seqs

THEOREM RevKeepsType == \A s \in Seqs : Rev(s) \in Seqs
  BY Len DEF Rev, Seqs

THEOREM MapKeepsType == \A f \in [Sym -> Sym] : \A s \in Seqs : Map(f, s) \in Seqs
  BY DEF Map, Seqs

THEOREM MapRevCommute == \A f \in [Sym -> Sym] : \A s \in Seqs : Map(f, Rev(s)) = Rev(Map(f, s))
<1> TAKE f \in [Sym -> Sym]
<1> TAKE s \in Seqs
<1>1. \A i \in 1 .. n : n + 1 - i \in 1 .. n
  BY Len
<1> QED
  BY <1>1 DEF Map, Rev, Seqs

THEOREM MapInvolution ==
    \A f \in [Sym -> Sym] : (\A x \in Sym : f[f[x]] = x) => \A s \in Seqs : Map(f, Map(f, s)) = s
<1> TAKE f \in [Sym -> Sym]
<1> HAVE \A x \in Sym : f[f[x]] = x
<1> TAKE s \in Seqs
<1>1. Map(f, Map(f, s)) = [i \in 1 .. n |-> s[i]]
  BY DEF Map, Seqs
<1> QED
  BY <1>1 DEF Seqs

THEOREM MapIdempotent ==
    \A f \in [Sym -> Sym] : (\A x \in Sym : f[f[x]] = f[x]) => \A s \in Seqs : Map(f, Map(f, s)) = Map(f, s)
<1> TAKE f \in [Sym -> Sym]
<1> HAVE \A x \in Sym : f[f[x]] = f[x]
<1> TAKE s \in Seqs
<1> QED
  BY DEF Map, Seqs

\* unmask after mask equals unmask (C20), lifted from the table
THEOREM MapAbsorbs ==
    \A f, g \in [Sym -> Sym] : (\A x \in Sym : g[f[x]] = g[x]) => \A s \in Seqs : Map(g, Map(f, s)) = Map(g, s)
<1> TAKE f, g \in [Sym -> Sym]
<1> HAVE \A x \in Sym : g[f[x]] = g[x]
<1> TAKE s \in Seqs
<1> QED
  BY DEF Map, Seqs

\* two tables that commute (mask with complement) commute on sequences
THEOREM MapsCommute ==
    \A f, g \in [Sym -> Sym] : (\A x \in Sym : g[f[x]] = f[g[x]]) => \A s \in Seqs : Map(g, Map(f, s)) = Map(f, Map(g, s))
<1> TAKE f, g \in [Sym -> Sym]
<1> HAVE \A x \in Sym : g[f[x]] = f[g[x]]
<1> TAKE s \in Seqs
<1> QED
  BY DEF Map, Seqs

\* a per-symbol encoding with a left inverse (display then parse; encode then decode) round-trips on
\* sequences of any length: the lifting step of C01 / C18 (the per-symbol law itself is finite: MC_C05)
THEOREM MapLeftInverse ==
    ASSUME NEW Chr, NEW f \in [Sym -> Chr], NEW g \in [Chr -> Sym], \A x \in Sym : g[f[x]] = x
    PROVE  \A s \in Seqs : [i \in 1 .. n |-> g[f[s[i]]]] = s
<1> TAKE s \in Seqs
<1>1. [i \in 1 .. n |-> g[f[s[i]]]] = [i \in 1 .. n |-> s[i]]
  BY DEF Seqs
<1> QED
  BY <1>1 DEF Seqs

RevComp(f, s) == Rev(Map(f, s))

THEOREM RevCompInvolution ==
    \A f \in [Sym -> Sym] : (\A x \in Sym : f[f[x]] = x) => \A s \in Seqs : RevComp(f, RevComp(f, s)) = s
<1> TAKE f \in [Sym -> Sym]
<1> HAVE \A x \in Sym : f[f[x]] = x
<1> TAKE s \in Seqs
<1>1. Map(f, s) \in Seqs /\ Rev(Map(f, s)) \in Seqs
  BY MapKeepsType, RevKeepsType
<1>2. Map(f, Rev(Map(f, s))) = Rev(Map(f, Map(f, s)))
  BY <1>1, MapRevCommute
<1>3. Map(f, Map(f, s)) = s
  BY MapInvolution
<1>4. Rev(Rev(s)) = s
  BY RevInvolution
<1> QED
  BY <1>2, <1>3, <1>4 DEF RevComp
=============================================================================
