------------------------------ MODULE Codecs ------------------------------
(***************************************************************************)
(* The seven built-in codecs as finite tables, written from the            *)
(* documentation (README, module docs, the documented enum declarations,   *)
(* the IUPAC nucleotide-set table, NCBI translation table 1), NOT from     *)
(* the decoding functions of the implementation.                           *)
(*                                                                         *)
(* A symbol is identified by its canonical bit code (a number 0..255).     *)
(* Characters are ASCII byte values.  NoSym (-1) means "refused".          *)
(***************************************************************************)
EXTENDS Integers, Sequences, FiniteSets, Bits

NoSym == -1

\* "x3" and "x7" are two codecs DERIVED in the harness (harness/src/custom.rs) from declarations written
\* for this purpose, so that symbol widths 3 and 7 -- which no built-in codec has -- go through every
\* codec-generic property:  x3: A=0 C=1 G=2 T=3 N=4 gap('-')=7, alt 5->N;   x7: A=0 C=1 G=64 T=127 N=85 W=42
CodecNames == {"dna", "iupac", "amino", "text", "mdna", "miupac", "degen", "x3", "x7"}

\* DNA bases as numbers: the documented 2-bit codes
bA == 0  bC == 1  bG == 2  bT == 3
Bases == {bA, bC, bG, bT}

\* ASCII
chA == 65 chB == 66 chC == 67 chD == 68 chE == 69 chF == 70 chG == 71
chH == 72 chI == 73 chK == 75 chL == 76 chM == 77 chN == 78 chP == 80
chQ == 81 chR == 82 chS == 83 chT == 84 chV == 86 chW == 87 chX == 88
chY == 89
chStar == 42  chDash == 45  chDot == 46  chQuest == 63  chBang == 33
Lower(ch) == ch + 32

BaseChar(b) == <<chA, chC, chG, chT>>[b + 1]

(***************************************************************************)
(* Watson-Crick complement of a base: A-T, C-G.                            *)
(***************************************************************************)
BaseComp(b) == 3 - b

(***************************************************************************)
(* IUPAC nucleotide ambiguity codes: letter <-> set of bases.              *)
(* Listed in the order of the documented enum.                             *)
(***************************************************************************)
IupacTable == <<
    [ch |-> chA, set |-> {bA}],
    [ch |-> chC, set |-> {bC}],
    [ch |-> chG, set |-> {bG}],
    [ch |-> chT, set |-> {bT}],
    [ch |-> chR, set |-> {bA, bG}],
    [ch |-> chY, set |-> {bC, bT}],
    [ch |-> chS, set |-> {bC, bG}],
    [ch |-> chW, set |-> {bA, bT}],
    [ch |-> chK, set |-> {bG, bT}],
    [ch |-> chM, set |-> {bA, bC}],
    [ch |-> chB, set |-> {bC, bG, bT}],
    [ch |-> chD, set |-> {bA, bG, bT}],
    [ch |-> chH, set |-> {bA, bC, bT}],
    [ch |-> chV, set |-> {bA, bC, bG}],
    [ch |-> chN, set |-> {bA, bC, bG, bT}],
    [ch |-> chDash, set |-> {}] >>

In(x, S) == IF x \in S THEN 1 ELSE 0

\* 4-bit IUPAC code of a set: columns A C G T of the documented table, A high
IupacCode(S) == 8 * In(bA, S) + 4 * In(bC, S) + 2 * In(bG, S) + In(bT, S)
IupacSet(code) == {b \in Bases : Bit(code, 3 - b) = 1}

\* 5-bit masked IUPAC: bits  A C m G T
MIupacCode(S, m) == 16 * In(bA, S) + 8 * In(bC, S) + 4 * m + 2 * In(bG, S) + In(bT, S)
MIupacSet(code) == {b \in Bases : Bit(code, IF b <= 1 THEN 4 - b ELSE 3 - b) = 1}
MIupacMasked(code) == Bit(code, 2) = 1

\* 4-bit masked DNA: one-hot A C G T high to low; masked = bitwise inverse
MDnaCode(b) == 2 ^ (3 - b)

(***************************************************************************)
(* The standard genetic code (NCBI translation table 1), bases in TCAG     *)
(* order:  FFLLSSSSYY**CC*WLLLLPPPPHHQQRRRRIIIMTTTTNNKKSSRRVVVVAAAADDEEGGGG *)
(***************************************************************************)
GeneticString == <<
    chF, chF, chL, chL, chS, chS, chS, chS, chY, chY, chStar, chStar, chC, chC, chStar, chW,
    chL, chL, chL, chL, chP, chP, chP, chP, chH, chH, chQ, chQ, chR, chR, chR, chR,
    chI, chI, chI, chM, chT, chT, chT, chT, chN, chN, chK, chK, chS, chS, chR, chR,
    chV, chV, chV, chV, chA, chA, chA, chA, chD, chD, chE, chE, chG, chG, chG, chG >>

TcagIndex(b) == <<2, 1, 3, 0>>[b + 1]      \* A->2, C->1, G->3, T->0

\* residue character coded by the DNA codon b1 b2 b3 (first, second, third base)
Genetic(b1, b2, b3) ==
    GeneticString[16 * TcagIndex(b1) + 4 * TcagIndex(b2) + TcagIndex(b3) + 1]

\* 6-bit pattern of a codon read in place from 2-bit DNA: first base lowest
CodonBits(b1, b2, b3) == b1 + 4 * b2 + 16 * b3

\* documented canonical codon of every residue ("A = GCA", "C = TGC", ...)
AminoTable == <<
    [ch |-> chA, codon |-> <<bG, bC, bA>>],
    [ch |-> chC, codon |-> <<bT, bG, bC>>],
    [ch |-> chD, codon |-> <<bG, bA, bC>>],
    [ch |-> chE, codon |-> <<bG, bA, bA>>],
    [ch |-> chF, codon |-> <<bT, bT, bC>>],
    [ch |-> chG, codon |-> <<bG, bG, bA>>],
    [ch |-> chH, codon |-> <<bC, bA, bC>>],
    [ch |-> chI, codon |-> <<bA, bT, bA>>],
    [ch |-> chK, codon |-> <<bA, bA, bA>>],
    [ch |-> chL, codon |-> <<bC, bT, bA>>],
    [ch |-> chM, codon |-> <<bA, bT, bG>>],
    [ch |-> chN, codon |-> <<bA, bA, bC>>],
    [ch |-> chP, codon |-> <<bC, bC, bA>>],
    [ch |-> chQ, codon |-> <<bC, bA, bA>>],
    [ch |-> chR, codon |-> <<bA, bG, bA>>],
    [ch |-> chS, codon |-> <<bA, bG, bC>>],
    [ch |-> chT, codon |-> <<bA, bC, bA>>],
    [ch |-> chV, codon |-> <<bG, bT, bA>>],
    [ch |-> chW, codon |-> <<bT, bG, bG>>],
    [ch |-> chY, codon |-> <<bT, bA, bC>>],
    [ch |-> chStar, codon |-> <<bT, bA, bA>>] >>

AminoCodeOfChar(ch) ==
    LET i == CHOOSE i \in 1 .. Len(AminoTable) : AminoTable[i].ch = ch
    IN  CodonBits(AminoTable[i].codon[1], AminoTable[i].codon[2], AminoTable[i].codon[3])

(***************************************************************************)
(* Item lists: <<code, character>> in documented declaration order.        *)
(***************************************************************************)
ItemsOf(c) ==
    CASE c = "dna" ->
            [i \in 1 .. 4 |-> [code |-> i - 1, ch |-> BaseChar(i - 1)]]
      [] c = "iupac" ->
            [i \in 1 .. 16 |-> [code |-> IupacCode(IupacTable[i].set), ch |-> IupacTable[i].ch]]
      [] c = "amino" ->
            [i \in 1 .. 21 |-> [code |-> AminoCodeOfChar(AminoTable[i].ch), ch |-> AminoTable[i].ch]]
      [] c = "text" ->
            <<[code |-> chA, ch |-> chA], [code |-> chC, ch |-> chC], [code |-> chG, ch |-> chG],
              [code |-> chT, ch |-> chT], [code |-> chN, ch |-> chN]>>
      [] c = "mdna" ->
            <<[code |-> MDnaCode(bA), ch |-> chA], [code |-> MDnaCode(bC), ch |-> chC],
              [code |-> MDnaCode(bG), ch |-> chG], [code |-> MDnaCode(bT), ch |-> chT],
              [code |-> 15 - MDnaCode(bA), ch |-> Lower(chA)],
              [code |-> 15 - MDnaCode(bC), ch |-> Lower(chC)],
              [code |-> 15 - MDnaCode(bG), ch |-> Lower(chG)],
              [code |-> 15 - MDnaCode(bT), ch |-> Lower(chT)],
              [code |-> 0, ch |-> chN], [code |-> 15, ch |-> Lower(chN)],
              [code |-> 12, ch |-> chDash], [code |-> 10, ch |-> chDot],
              [code |-> 6, ch |-> chQuest], [code |-> 9, ch |-> chBang]>>
      [] c = "miupac" ->
            [i \in 1 .. 32 |->
                LET e == IupacTable[((i - 1) % 16) + 1]
                    m == (i - 1) \div 16
                IN  [code |-> MIupacCode(e.set, m),
                     ch |-> IF e.set = {} THEN (IF m = 1 THEN chDot ELSE chDash)
                            ELSE IF m = 1 THEN Lower(e.ch) ELSE e.ch]]
      [] c = "degen" ->
            <<[code |-> 1, ch |-> chS], [code |-> 0, ch |-> chW]>>
      [] c = "x3" ->
            <<[code |-> 0, ch |-> chA], [code |-> 1, ch |-> chC], [code |-> 2, ch |-> chG],
              [code |-> 3, ch |-> chT], [code |-> 4, ch |-> chN], [code |-> 7, ch |-> chDash]>>
      [] c = "x7" ->
            <<[code |-> 0, ch |-> chA], [code |-> 1, ch |-> chC], [code |-> 64, ch |-> chG],
              [code |-> 127, ch |-> chT], [code |-> 85, ch |-> chN], [code |-> 42, ch |-> chW]>>

W(c) == CASE c = "dna" -> 2 [] c = "iupac" -> 4 [] c = "amino" -> 6 [] c = "text" -> 8
          [] c = "mdna" -> 4 [] c = "miupac" -> 5 [] c = "degen" -> 1 [] c = "x3" -> 3 [] c = "x7" -> 7

\* extra bit patterns accepted by the decoders: <<pattern, canonical code>>
AltsOf(c) ==
    CASE c = "mdna" -> {<<3, 12>>, <<5, 10>>}
      [] c = "x3" -> {<<5, 4>>, <<6, 4>>}
      [] c = "amino" ->
            {<<CodonBits(x, y, z), AminoCodeOfChar(Genetic(x, y, z))>> : x \in Bases, y \in Bases, z \in Bases}
      [] OTHER -> {}

\* extra characters accepted by the parser: <<byte, canonical code>>
AsciiAliasesOf(c) ==
    CASE c = "degen" -> {<<chC, 1>>, <<chG, 1>>, <<chA, 0>>, <<chT, 0>>}
      [] OTHER -> {}

ItemsT == [c \in CodecNames |-> ItemsOf(c)]
Items(c) == ItemsT[c]
CodesOf(c) == {Items(c)[i].code : i \in 1 .. Len(Items(c))}

(***************************************************************************)
(* Lookup tables over all 256 byte values (constant, evaluated once).      *)
(***************************************************************************)
DecodeT ==
    [c \in CodecNames |->
        [p \in 0 .. 255 |->
            IF c = "text" THEN p
            ELSE IF p \in CodesOf(c) THEN p
            ELSE IF \E a \in AltsOf(c) : a[1] = p
                 THEN (CHOOSE a \in AltsOf(c) : a[1] = p)[2]
            ELSE NoSym]]

FromAsciiT ==
    [c \in CodecNames |->
        [b \in 0 .. 255 |->
            IF \E i \in 1 .. Len(Items(c)) : Items(c)[i].ch = b
            THEN Items(c)[CHOOSE i \in 1 .. Len(Items(c)) : Items(c)[i].ch = b].code
            ELSE IF \E a \in AsciiAliasesOf(c) : a[1] = b
                 THEN (CHOOSE a \in AsciiAliasesOf(c) : a[1] = b)[2]
            ELSE NoSym]]

CharT ==
    [c \in CodecNames |->
        [p \in 0 .. 255 |->
            IF c = "text" THEN p
            ELSE IF \E i \in 1 .. Len(Items(c)) : Items(c)[i].code = p
                 THEN Items(c)[CHOOSE i \in 1 .. Len(Items(c)) : Items(c)[i].code = p].ch
            ELSE NoSym]]

\* decode a raw bit pattern (canonical or alternative) to the canonical code
Decode(c, p) == DecodeT[c][p]
\* parse one ASCII byte
FromAscii(c, b) == FromAsciiT[c][b]
\* display character of a canonical code
Char(c, code) == CharT[c][code]

(***************************************************************************)
(* Complement and soft-masking, at symbol level.                           *)
(***************************************************************************)
HasComp(c) == c \in {"dna", "iupac", "mdna", "miupac", "degen", "x3"}
HasMask(c) == c \in {"mdna", "miupac"}

SetComp(S) == {BaseComp(b) : b \in S}

\* reverse the low w bits of p
RevBits(p, w) == ValOf(Rev(BitsOf(p, w)))

Comp(c, code) ==
    CASE c = "dna" -> BaseComp(code)
      [] c = "iupac" -> IupacCode(SetComp(IupacSet(code)))
      [] c = "miupac" -> MIupacCode(SetComp(MIupacSet(code)), Bit(code, 2))
      [] c = "mdna" -> Decode("mdna", RevBits(code, 4))   \* "complemented by reversing the bit pattern"
      [] c = "degen" -> code                              \* complement is erased by the encoding
      [] c = "x3" -> IF code <= 3 THEN 3 - code ELSE code   \* A-T, C-G; N and gap fixed (harness/src/custom.rs)

Mask(c, code) ==
    CASE c = "miupac" -> MIupacCode(MIupacSet(code), 1)
      [] c = "mdna" -> Decode("mdna", 15 - code)           \* "inverting the bit pattern masks/unmasks"

Unmask(c, code) ==
    CASE c = "miupac" -> MIupacCode(MIupacSet(code), 0)
      [] c = "mdna" -> Decode("mdna", 15 - code)

CompT == [c \in {"dna", "iupac", "mdna", "miupac", "degen", "x3"} |->
            [p \in CodesOf(c) |-> Comp(c, p)]]
MaskT == [c \in {"mdna", "miupac"} |-> [p \in CodesOf(c) |-> Mask(c, p)]]
UnmaskT == [c \in {"mdna", "miupac"} |-> [p \in CodesOf(c) |-> Unmask(c, p)]]

\* the symbols of masked DNA whose masking the documentation speaks about
MDnaCaseSyms == {8, 4, 2, 1, 7, 11, 13, 14, 0, 15}
MDnaFixedSyms == {12, 10}

(***************************************************************************)
(* Cross-codec conversion of one DNA base.                                 *)
(***************************************************************************)
DnaTo(c2, b) ==
    CASE c2 = "iupac" -> IupacCode({b})
      [] c2 = "text" -> BaseChar(b)
      [] c2 = "dna" -> b

TextToDna(byte) ==
    IF byte = chA THEN bA ELSE IF byte = chC THEN bC
    ELSE IF byte = chG THEN bG ELSE IF byte = chT THEN bT ELSE NoSym

(***************************************************************************)
(* Table laws (property C05 on the specification itself).                  *)
(***************************************************************************)
CodecLaws(c) ==
    /\ \A i \in 1 .. Len(Items(c)) :
          /\ Items(c)[i].code < 2 ^ W(c)
          /\ Decode(c, Items(c)[i].code) = Items(c)[i].code
          /\ FromAscii(c, Items(c)[i].ch) = Items(c)[i].code
          /\ Char(c, Items(c)[i].code) = Items(c)[i].ch
          /\ \A j \in 1 .. Len(Items(c)) :
                i # j => /\ Items(c)[i].code # Items(c)[j].code
                         /\ Items(c)[i].ch # Items(c)[j].ch
    /\ \A a \in AltsOf(c) : a[2] \in CodesOf(c) /\ a[1] < 2 ^ W(c)
    /\ \A p \in 0 .. 255 : Decode(c, p) # NoSym => Decode(c, p) \in CodesOf(c) \/ c = "text"
    /\ \A b \in 0 .. 255 : FromAscii(c, b) # NoSym => FromAscii(c, b) \in CodesOf(c)
    /\ HasComp(c) => \A p \in CodesOf(c) : Comp(c, p) \in CodesOf(c) /\ Comp(c, Comp(c, p)) = p

DocumentedAlphabets ==
    /\ <<FromAscii("dna", chA), FromAscii("dna", chC), FromAscii("dna", chG), FromAscii("dna", chT)>> = <<0, 1, 2, 3>>
    /\ \A b \in Bases : Comp("dna", b) = BaseComp(b)
    /\ Comp("dna", bA) = bT /\ Comp("dna", bC) = bG
    /\ \A i \in 1 .. 16 : IupacSet(IupacCode(IupacTable[i].set)) = IupacTable[i].set
    /\ \A p \in 0 .. 15 : IupacSet(Comp("iupac", p)) = SetComp(IupacSet(p))
    /\ \A x \in Bases, y \in Bases, z \in Bases :
          Char("amino", Decode("amino", CodonBits(x, y, z))) = Genetic(x, y, z)
    /\ \A i \in 1 .. 21 :
          Genetic(AminoTable[i].codon[1], AminoTable[i].codon[2], AminoTable[i].codon[3]) = AminoTable[i].ch
=============================================================================
