SPECIFICATION MCSpec
CONSTANTS
    NR = 2
    NK = 1
    NT = 1
    NI = 1
    MaxLen = 2
VIEW MCView
CONSTRAINT FeedSmall
INVARIANT TypeOK
INVARIANT FeedFunctional
CHECK_DEADLOCK FALSE
