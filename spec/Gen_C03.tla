------------------------------- MODULE Gen_C03 -------------------------------
(* Spec -> implementation for C03: EVERY slice expression of depth <= Depth    *)
(* over parents of length <= MaxLen, plus every step just past the end, with   *)
(* the parent embedded in a longer sequence so that a 64-bit word boundary     *)
(* falls inside it; for every codec.                                           *)
EXTENDS MCBase, Json
CONSTANTS Depth, MaxLen, GenCodecs

VARIABLE hist
gvars == <<vars, hist>>
Ev(rec) == hist' = Append(hist, rec @@ [obs |-> out'])

Sym(c, i) == Items(c)[((i - 1) % Len(Items(c))) + 1].code
Pads(c) == {0, (64 \div W(c)) - 2}

RECURSIVE PathsIn(_, _)
PathsIn(n, k) ==
    IF k = 0 THEN {[path |-> <<>>, len |-> n]}
    ELSE UNION {{[path |-> <<st>> \o p.path, len |-> p.len] : p \in PathsIn(Hi(st, n) - Lo(st, n), k - 1)} : st \in StepsIn(n)}

Probes(m) == <<0, IF m > 0 THEN m - 1 ELSE 0, m, m + 1>>

GInit == Init /\ hist = <<>>

Load ==
    /\ Len(hist) = 0
    /\ \E c \in GenCodecs : \E n \in 0 .. MaxLen : \E pad \in Pads(c) :
          LET s == [i \in 1 .. (pad + n + 2) |-> Sym(c, i + pad)] IN
          FromSyms(0, c, s) /\ Ev([op |-> "fromsyms", dst |-> 0, c |-> c, via |-> "iter", syms |-> s])

Look ==
    /\ Len(hist) = 1
    /\ LET total == Len(reg[0].s)
           c == reg[0].c
       IN  \E pad \in Pads(c) : \E n \in 0 .. MaxLen :
             /\ pad + n + 2 = total
             /\ \E k \in 0 .. Depth : \E p \in PathsIn(n, k) :
                   LET window == [f |-> "r", a |-> pad, b |-> pad + n]
                       inb == [base |-> "reg", r |-> 0, path |-> <<window>> \o p.path]
                   IN  \/ Obs(inb, Probes(p.len), Probes(p.len))
                          /\ Ev([op |-> "obs", src |-> inb, gets |-> Probes(p.len), nths |-> Probes(p.len)])
                       \/ /\ k < Depth
                          /\ \E st \in StepsOut(p.len) :
                                LET oob == [base |-> "reg", r |-> 0, path |-> <<window>> \o p.path \o <<st>>] IN
                                Obs(oob, <<>>, <<>>) /\ Ev([op |-> "obs", src |-> oob, gets |-> <<>>, nths |-> <<>>])

GNext == Load \/ Look
GSpec == GInit /\ [][GNext]_gvars
Emit == (Len(hist) = 2) => PrintT(<<"REPLAY", ToJson(hist)>>)
=============================================================================
