//! Dense length sweeps: every length 0..=160 and the neighbourhoods of 256, 512, 1024 (2048, 4096,
//! 8192 bits in the thorough tier) with one to three events per length, at a varying slice offset,
//! with differences placed at the LAST position.  A fast path that switches at some length or word
//! count cannot hide between the boundary lengths of the other scenarios.
use crate::cx::Cx;
use crate::drv::{sl, step, whole, Drv};
use crate::scen::c08::is_ord;
use serde_json::json;

pub fn sweep_lens(scale: usize, w: usize) -> Vec<usize> {
    let mut v: Vec<usize> = (0..=160).collect();
    for p in [256usize, 512, 1024] {
        v.extend([p - 1, p, p + 1, p + 2]);
    }
    // bit-count thresholds: 2048, 4096, 8192 bits
    for bits in [2048usize, 4096, 8192] {
        if scale > 1 || bits / w <= 1100 {
            let n = bits / w;
            v.extend([n.saturating_sub(1), n, n + 1, n + 17]);
        }
    }
    v.sort();
    v.dedup();
    v
}

fn other_code<A: Cx>(d: &mut Drv<A>, c: u8) -> u8 {
    let codes = d.codes();
    loop {
        let x = *d.rng.pick(&codes);
        if x != c {
            return x;
        }
    }
}

pub fn run<A: Cx>(d: &mut Drv<A>, focus: &str, scale: usize) {
    let w = A::BITS as usize;
    let codes = d.codes();
    let comp = matches!(A::NAME, "dna" | "iupac" | "mdna" | "miupac" | "degen" | "x3");
    for (i, n) in sweep_lens(scale, w).into_iter().enumerate() {
        let off = (i * 7 + 3) % 67;
        let t = d.rand_syms(off + n + 2);
        // the parent itself has a history (interactions between features)
        if d.rng.chance(1, 2) {
            d.produce(0, &t);
        } else {
            d.emit(json!({"op": "fromsyms", "dst": 0, "c": A::NAME, "via": "iter", "syms": t}));
        }
        let x = sl(0, off, off + n);
        // y: x with only its last symbol changed, at another offset in another register
        let mut y: Vec<u8> = t[off..off + n].to_vec();
        if n > 0 {
            y[n - 1] = other_code(d, y[n - 1]);
        }
        let o2 = (i * 5 + 1) % 61;
        let mut p = d.rand_syms(o2);
        p.extend_from_slice(&y);
        p.push(codes[0]);
        match focus {
            "c01" => {
                let txt = d.rand_text(n);
                let entry = (["str", "bytes", "collect", "fromstr", "vec", "string"][i % 6]);
                d.emit(json!({"op": "parse", "dst": 1, "c": A::NAME, "entry": entry, "bytes": txt}));
                d.emit(json!({"op": "str", "src": whole(1), "via": (["seq_display", "to_string", "chars"][i % 3])}));
            }
            "c02" => {
                d.emit(json!({"op": "fromsyms", "dst": 1, "c": A::NAME, "via": "vec", "syms": p}));
                let ys = sl(1, o2, o2 + n);
                d.emit(json!({"op": "toowned", "dst": 2, "src": x.clone(), "via": "to_owned"}));
                d.emit(json!({"op": "eq", "x": {"kind": "slice", "src": x.clone()}, "y": {"kind": "slice", "src": ys.clone()}}));
                d.emit(json!({"op": "eq", "x": {"kind": "seq", "src": whole(2)}, "y": {"kind": "refslice", "src": x.clone()}}));
                d.emit(json!({"op": "hash", "x": {"kind": "slice", "src": x.clone()}}));
                d.emit(json!({"op": "hash", "x": {"kind": "seq", "src": whole(2)}}));
                d.emit(json!({"op": "hash", "x": {"kind": "refslice", "src": ys}}));
            }
            "c03" => {
                let pr = vec![0, n / 2, n.saturating_sub(1), n, n + 1];
                d.emit(json!({"op": "obs", "src": x.clone(), "gets": pr, "nths": pr}));
                if n > 2 {
                    d.emit(json!({"op": "obs", "src": {"base": "reg", "r": 0, "path": [step("r", off, off + n), step("ri", 1, n - 2)]}, "gets": [n - 3], "nths": [n - 2]}));
                }
            }
            "c04" => {
                d.emit(json!({"op": "toowned", "dst": 1, "src": x.clone(), "via": (["to_owned", "from", "collect"][i % 3])}));
                let o = d.emit(json!({"op": "intoraw", "r": 1}));
                d.emit(json!({"op": "fromraw", "dst": 2, "c": A::NAME, "n": n, "limbs": o["limbs"]}));
                d.emit(json!({"op": "eq", "x": {"kind": "seq", "src": whole(2)}, "y": {"kind": "seq", "src": whole(1)}}));
            }
            "c06" => {
                d.emit(json!({"op": "toowned", "dst": 1, "src": x.clone(), "via": "to_owned"}));
                let ins = sl(0, 0, off.min(5));
                d.emit(json!({"op": "insert", "dst": 1, "i": n / 2, "src": ins}));
                let m = d.len(1);
                let a = m / 3;
                d.emit(json!({"op": "remove", "dst": 1, "range": step("r", a, (a + 7).min(m))}));
                let xv = codes[i % codes.len()];
                d.emit(json!({"op": "push", "dst": 1, "x": xv}));
                d.emit(json!({"op": "prepend", "dst": 1, "src": sl(0, off, off + n.min(3))}));
            }
            "c07" => {
                d.emit(json!({"op": "copying", "dst": 1, "src": x.clone(), "t": "rev", "via": "slice"}));
                if comp {
                    d.emit(json!({"op": "copying", "dst": 2, "src": x.clone(), "t": "comp", "via": "slice"}));
                    d.emit(json!({"op": "inplace", "dst": 1, "t": "revcomp"}));
                }
            }
            "c08" => {
                if w * 3 <= 64 {
                    d.emit(json!({"op": "kmers", "src": x.clone(), "k": 3}));
                }
                // k-mers that fill the machine word (or all but one symbol of it): every window start
                // relative to the byte and word grid occurs as the slice offset and the length sweep
                for k in [64 / w, 64 / w - 1] {
                    if k >= 4 && crate::kd::KS.contains(&k) && n >= k && i % 3 == k % 3 {
                        d.emit(json!({"op": "kmers", "src": x.clone(), "k": k}));
                    }
                }
            }
            "c10" => {
                if is_ord::<A>() && n > 0 {
                    d.emit(json!({"op": "toowned", "dst": 1, "src": x.clone(), "via": "to_owned"}));
                    // first symbol says one thing, last symbol the opposite
                    let mut z = y.clone();
                    let lo = *codes.iter().min().unwrap();
                    let hi = *codes.iter().max().unwrap();
                    let xl = t[off + n - 1];
                    z[n - 1] = if xl == hi { lo } else { hi };
                    if n > 1 {
                        z[0] = if z[n - 1] == hi { lo } else { hi };
                    }
                    d.emit(json!({"op": "fromsyms", "dst": 2, "c": A::NAME, "via": "iter", "syms": z}));
                    d.emit(json!({"op": "cmp", "x": {"kind": "seq", "src": whole(1)}, "y": {"kind": "seq", "src": whole(2)}}));
                    d.emit(json!({"op": "cmp", "x": {"kind": "seq", "src": whole(2)}, "y": {"kind": "seq", "src": whole(1)}}));
                }
            }
            "c11" => {
                d.emit(json!({"op": "itrun", "kind": (["iter", "rev", "intoiter"][i % 3]), "x": x.clone(), "y": whole(0), "w": 0}));
                let wd = 1 + i % 9;
                d.emit(json!({"op": "itrun", "kind": (["chunks", "windowsvec", "chunksvec"][i % 3]), "x": x.clone(), "y": whole(0), "w": if i % 3 == 1 { n.max(wd).saturating_sub(wd % 3).max(1) } else { wd }}));
            }
            "c12" => {
                // pattern x, argument = position-wise subset except (second event) at the LAST position
                let pat: Vec<u8> = t[off..off + n].to_vec();
                let sub: Vec<u8> = pat.iter().map(|&c| c & *d.rng.pick(&codes)).collect();
                let mut bad = sub.clone();
                if n > 0 {
                    let extra = (0..4).map(|b| 1u8 << b).find(|b| pat[n - 1] & b == 0);
                    if let Some(b) = extra {
                        bad[n - 1] |= b;
                    }
                }
                let mut pb = d.rand_syms(o2);
                pb.extend_from_slice(&sub);
                pb.extend_from_slice(&bad);
                d.emit(json!({"op": "fromsyms", "dst": 1, "c": A::NAME, "via": "iter", "syms": pb}));
                d.emit(json!({"op": "contains", "x": {"kind": "slice", "src": x.clone()}, "y": sl(1, o2, o2 + n)}));
                d.emit(json!({"op": "contains", "x": {"kind": "slice", "src": x.clone()}, "y": sl(1, o2 + n, o2 + 2 * n)}));
                d.emit(json!({"op": "toowned", "dst": 3, "src": x.clone(), "via": "to_owned"}));
                d.emit(json!({"op": "contains", "x": {"kind": "seq", "src": whole(3)}, "y": sl(1, o2 + n, o2 + 2 * n)}));
                d.emit(json!({"op": "bitop", "dst": 2, "x": x.clone(), "y": sl(1, o2 + n, o2 + 2 * n), "t": (["or", "and"][i % 2]), "via": (["ref", "owned"][(i / 2) % 2])}));
            }
            "c13" => {
                d.emit(json!({"op": "itrun", "kind": "chunks", "x": x.clone(), "y": whole(0), "w": 3}));
                if n >= 3 {
                    d.emit(json!({"op": "toamino", "src": sl(0, off + n - 3, off + n)}));
                }
            }
            "c18" => {
                d.emit(json!({"op": "toowned", "dst": 1, "src": x.clone(), "via": "to_owned"}));
                d.emit(json!({"op": "serde", "dst": 2, "r": 1, "fmt": crate::scen::c18::FORMATS[i % crate::scen::c18::FORMATS.len()]}));
            }
            "c19" => {
                d.emit(json!({"op": "convert", "src": x.clone(), "to": (["iupac", "text"][i % 2]), "via": (["slice", "sym"][(i / 2) % 2])}));
            }
            "c20" => {
                d.emit(json!({"op": "toowned", "dst": 1, "src": x.clone(), "via": "to_owned"}));
                d.emit(json!({"op": "copying", "dst": 2, "src": whole(1), "t": (["mask", "unmask"][i % 2]), "via": "seq"}));
                d.emit(json!({"op": "inplace", "dst": 1, "t": (["unmask", "mask"][i % 2])}));
            }
            o => panic!("sweep: focus {o}"),
        }
        if i % 40 == 39 {
            d.reset();
        }
    }
    d.reset();
}
