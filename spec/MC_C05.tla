------------------------------- MODULE MC_C05 -------------------------------
(* C05: the codec tables -- a machine that visits every (codec, byte) cell;  *)
(* the table laws are checked on the specification's tables themselves.      *)
EXTENDS MCBase

Checked(A, P) == A /\ Assert(P, "a codec table law fails on the specification")

CellLaw(c, b) ==
    LET e == CellExpected(c, b)
    IN  /\ e.tfb # NoSym => (e.tfb \in CodesOf(c) \/ c = "text") /\ e.ufb = e.tfb   \* unchecked agrees where fallible succeeds
        /\ e.tfa # NoSym => e.tfa \in CodesOf(c) /\ e.ufa = e.tfa
        /\ (b >= 2 ^ W(c)) => e.tfb = NoSym                                           \* nothing beyond the declared width
        /\ (e.ch # -3 /\ c # "text") => FromAscii(c, e.ch) = b /\ Decode(c, b) = b         \* char parses back, code decodes back
        /\ e.comp # -3 => CellExpected(c, e.comp).comp = b                             \* complement is an involution
        /\ (e.mask # -3 /\ c = "miupac") =>
              /\ CellExpected(c, e.mask).mask = e.mask /\ CellExpected(c, e.unmask).unmask = e.unmask
              /\ CellExpected(c, e.mask).unmask = e.unmask
              /\ MIupacSet(e.mask) = MIupacSet(b) /\ MIupacSet(e.unmask) = MIupacSet(b)
              /\ MIupacMasked(e.mask) /\ ~MIupacMasked(e.unmask)
              /\ Comp(c, e.mask) = Mask(c, Comp(c, b))
        /\ (e.mask # -3 /\ c = "mdna") =>
              /\ (b \in MDnaFixedSyms => e.mask = b /\ e.unmask = b)
              /\ (b \in MDnaCaseSyms => CellExpected(c, e.mask).mask = b /\ e.mask # b)
              /\ Comp(c, e.mask) = Mask(c, Comp(c, b))

MCNext == \E c \in CodecNames : \E b \in 0 .. 255 : Checked(Cell(c, b), CellLaw(c, b)) \/ CodecInfo(c)
MCSpec == Init /\ [][MCNext]_vars

Laws == (\A c \in CodecNames : CodecLaws(c)) /\ DocumentedAlphabets
=============================================================================
