-------------------------------- MODULE Mech --------------------------------
(***************************************************************************)
(* Mechanism-level transcriptions of the bit algorithms the implementation *)
(* actually uses, on bit sequences (index 1 = bit 0).  Each one is checked *)
(* by TLC (MC_*.cfg) to REFINE its abstract counterpart in SeqOps /        *)
(* Translation on small complete domains: a design that cannot be right    *)
(* shows up as a TLC counterexample before any code runs.  The verdict on  *)
(* the CODE never comes from here; it comes from conformance.              *)
(***************************************************************************)
EXTENDS Translation

(***************************************************************************)
(* seq.rs push: extend_from_bitslice(byte.view_bits::<Lsb0>()[..BITS])     *)
(***************************************************************************)
M_Push(bits, code, w) == bits \o BitsOf(code, w)

(***************************************************************************)
(* seq.rs rev: bv.reverse(); for chunk in rchunks_exact_mut(BITS)          *)
(* { chunk.reverse() }                                                     *)
(***************************************************************************)
RevChunksFromEnd(b, w) ==
    \* reverse every w-chunk, chunks counted from the END (rchunks_exact)
    [i \in 1 .. Len(b) |->
        LET fromEnd == Len(b) - i                 \* 0-based distance from the end
            chunk == fromEnd \div w
            inChunk == fromEnd % w
        IN  IF (chunk + 1) * w <= Len(b)
            THEN b[Len(b) - (chunk * w + (w - 1 - inChunk))]
            ELSE b[i]]
M_Rev(bits, w) == RevChunksFromEnd(Rev(bits), w)

(***************************************************************************)
(* seq.rs comp / mask: for each BITS-chunk: load_le -> symbol op -> store  *)
(***************************************************************************)
M_MapChunks(bits, w, f(_)) ==
    LET n == Len(bits) \div w
        vals == [j \in 1 .. n |-> f(ValAt(bits, (j - 1) * w + 1, w))]
    IN  Pack(vals, w)

(***************************************************************************)
(* Hashing: bitvec feeds one write_u8 per bit, then the length as usize.   *)
(* A feed is modelled as <<bits written, length word>>.                    *)
(***************************************************************************)
M_SliceHash(bits, w) == <<bits, Len(bits) \div w>>
\* kmer.rs (after the fix): the K*BITS content bits of the storage word, then K
M_KmerHash(word, K, w) == <<SubSeq(word, 1, K * w), K>>
\* kmer.rs (as found): the whole storage word, then K
M_KmerHashWholeWord(word, K, w) == <<word, K>>

(***************************************************************************)
(* Integers                                                                *)
(***************************************************************************)
\* slice.rs TryFrom<&SeqSlice> for usize: len <= 64 ? load_le : Err
M_ToUsize(bits) == IF Len(bits) <= 64 THEN [ok |-> TRUE, bits |-> bits] ELSE [ok |-> FALSE]

\* seq.rs from_raw (after the fix): len*BITS > 64*words -> None, else truncate
M_FromRaw(words, n, w) ==
    IF n * w > Len(words) THEN [ok |-> FALSE]
    ELSE [ok |-> TRUE, bits |-> SubSeq(words, 1, n * w)]
\* as found: the SYMBOL count was compared with the BIT count
M_FromRawAsFound(words, n, w) ==
    IF n > Len(words) THEN [ok |-> FALSE]
    ELSE [ok |-> TRUE, bits |-> SubSeq(words, 1, Min2(n * w, Len(words)))]

(***************************************************************************)
(* k-mers: a storage word of S bits, content in the low K*w bits           *)
(***************************************************************************)
ZeroExt(bits, S) == [i \in 1 .. S |-> IF i <= Len(bits) THEN bits[i] ELSE 0]
KWord(p, w, S) == ZeroExt(Pack(p, w), S)

\* bitvec rotate_left(n) on the low K*w bits: element i takes element (i+n) mod len
BitRotL(b, n) == [i \in 1 .. Len(b) |-> b[((i - 1 + n) % Len(b)) + 1]]
BitRotR(b, n) == [i \in 1 .. Len(b) |-> b[((i - 1 + Len(b) - (n % Len(b))) % Len(b)) + 1]]

M_KRotL(word, K, w, n) ==
    LET S == Len(word) IN ZeroExt(BitRotL(SubSeq(word, 1, K * w), (n % K) * w), S)
M_KRotR(word, K, w, n) ==
    LET S == Len(word) IN ZeroExt(BitRotR(SubSeq(word, 1, K * w), (n % K) * w), S)

\* pushr: rotate left by one symbol, then store the base over the last chunk
M_KPushR(word, K, w, x) ==
    LET r == M_KRotL(word, K, w, 1)
    IN  [i \in 1 .. Len(word) |->
            IF i > (K - 1) * w /\ i <= K * w THEN Bit(x, i - (K - 1) * w - 1) ELSE r[i]]
\* pushl: rotate right by one symbol, then store the base over the first chunk
M_KPushL(word, K, w, x) ==
    LET r == M_KRotR(word, K, w, 1)
    IN  [i \in 1 .. Len(word) |-> IF i <= w THEN Bit(x, i - 1) ELSE r[i]]

\* complement of 2-bit DNA: xor with (1 << K*2) - 1 (all ones at full width)
M_KComp(word, K) == [i \in 1 .. Len(word) |-> IF i <= 2 * K THEN 1 - word[i] ELSE word[i]]

\* rev_blocks_2: swap_bytes, reverse the four 2-bit blocks of every byte, then
\* shift right by S - K*w.  Net effect on bit positions: the 2-bit block j of the
\* S-bit word moves to block S/2 - 1 - j; then the word is shifted down.
M_RevBlocks2(word) ==
    LET S == Len(word)
    IN  [i \in 1 .. S |->
            LET blk == (i - 1) \div 2
                off == (i - 1) % 2
            IN  word[2 * ((S \div 2) - 1 - blk) + off + 1]]
ShiftR(word, n) == [i \in 1 .. Len(word) |-> IF i + n <= Len(word) THEN word[i + n] ELSE 0]
\* as found: used for EVERY symbol width (right only for w = 2)
M_KRev2(word, K, w) == ShiftR(M_RevBlocks2(word), Len(word) - K * w)
\* after the fix: 2-bit fast path, otherwise reverse all content bits then each chunk
M_KRev(word, K, w) ==
    IF w = 2 THEN M_KRev2(word, K, w)
    ELSE ZeroExt(M_Rev(SubSeq(word, 1, K * w), w), Len(word))

(***************************************************************************)
(* Ordering                                                                *)
(***************************************************************************)
\* derived Ord on the integer storage of a k-mer: numeric order
M_KmerLess(a, b) == NumLess(a, b)
\* Seq as found: derived Ord of the bit vector = lexicographic from bit 0
M_SeqLessAsFound(a, b) == BitLexLess(a, b)
\* Seq after the fix: compare from the most significant end
M_SeqLess(a, b) == NumLess(a, b)              \* for equal lengths

(***************************************************************************)
(* Translation: 6-bit load of three 2-bit bases, decoded as an amino acid  *)
(***************************************************************************)
M_ToAmino(bits) == Decode("amino", ValAt(bits, 1, 6))

(***************************************************************************)
(* The literal macros' hand-written per-character bit lists (seqarray.rs)  *)
(***************************************************************************)
M_DnaLitChar(ch) ==
    CASE ch = chA -> <<0, 0>> [] ch = chC -> <<1, 0>> [] ch = chG -> <<0, 1>> [] ch = chT -> <<1, 1>>
M_IupacLitChar(ch) ==
    CASE ch = chA -> <<0, 0, 0, 1>> [] ch = chC -> <<0, 0, 1, 0>> [] ch = chG -> <<0, 1, 0, 0>>
      [] ch = chT -> <<1, 0, 0, 0>> [] ch = chR -> <<0, 1, 0, 1>> [] ch = chY -> <<1, 0, 1, 0>>
      [] ch = chS -> <<0, 1, 1, 0>> [] ch = chW -> <<1, 0, 0, 1>> [] ch = chK -> <<1, 1, 0, 0>>
      [] ch = chM -> <<0, 0, 1, 1>> [] ch = chB -> <<1, 1, 1, 0>> [] ch = chD -> <<1, 1, 0, 1>>
      [] ch = chH -> <<1, 0, 1, 1>> [] ch = chV -> <<0, 1, 1, 1>> [] ch = chN -> <<1, 1, 1, 1>>
      [] ch \in {chX, chDash} -> <<0, 0, 0, 0>>
DnaLitAlphabet == {chA, chC, chG, chT}
IupacLitAlphabet == {chA, chC, chG, chT, chR, chY, chS, chW, chK, chM, chB, chD, chH, chV, chN, chX, chDash}

(***************************************************************************)
(* The derive macro's width computation                                    *)
(***************************************************************************)
\* least n with max < 2^n  (the meaning)
RECURSIVE LeastWidthFrom(_, _)
LeastWidthFrom(max, n) == IF max < 2 ^ n THEN n ELSE LeastWidthFrom(max, n + 1)
LeastWidth(max) == LeastWidthFrom(max, 0)
\* as found: ceil(log2(max + 1)) with max + 1 computed in u8 -- 255 + 1 overflows
M_MinWidthAsFound(max) == IF max = 255 THEN 0 ELSE LeastWidth(max)
\* after the fix: widen before adding one
M_MinWidth(max) == LeastWidth(max)
=============================================================================
