SPECIFICATION MCSpec
CONSTANTS
    NR = 1
    NK = 1
    NT = 1
    NI = 1
    MaxLen = 3
VIEW MCView
INVARIANT TypeOK
CHECK_DEADLOCK FALSE
