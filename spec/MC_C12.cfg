SPECIFICATION MCSpec
CONSTANTS
    NR = 3
    NK = 1
    NT = 1
    NI = 1
    MaxLen = 2
VIEW MCView
CONSTRAINT NoResult
INVARIANT TypeOK
CHECK_DEADLOCK FALSE
