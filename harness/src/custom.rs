//! Two codecs derived with the real `#[derive(Codec)]`, written for the harness so that symbol widths
//! 3 and 7 (which no built-in codec has) go through every codec-generic scenario.  Their tables are
//! stated independently in spec/Codecs.tla ("x3", "x7").
use bio_seq::prelude::*;

#[derive(Clone, Copy, Debug, PartialEq, Eq, PartialOrd, Ord, Hash, Codec)]
#[bits(3)]
#[repr(u8)]
pub enum X3 {
    A = 0b000,
    C = 0b001,
    G = 0b010,
    T = 0b011,
    #[alt(0b101)]
    #[alt(0b110)]
    N = 0b100,
    #[display('-')]
    Gap = 0b111,
}

#[derive(Clone, Copy, Debug, PartialEq, Eq, PartialOrd, Ord, Hash, Codec)]
#[repr(u8)]
pub enum X7 {
    A = 0,
    C = 1,
    G = 64,
    T = 127,
    N = 0b1010101,
    W = 42,
}

/// A-T, C-G; N and the gap are their own complements
impl ComplementMut for X3 {
    fn comp(&mut self) {
        *self = match *self {
            X3::A => X3::T,
            X3::T => X3::A,
            X3::C => X3::G,
            X3::G => X3::C,
            o => o,
        };
    }
}
