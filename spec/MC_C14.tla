------------------------------- MODULE MC_C14 -------------------------------
(* C14: ambiguous codons.  The meaning (every matching DNA codon codes the   *)
(* same residue) against the implementation's 29-row first-match table, on   *)
(* all 16^3 codons; reverse translation against the codon sets.              *)
EXTENDS MCBase

Checked(A, P) == A /\ Assert(P, "an ambiguous-codon law fails on the specification")

MCNext ==
    \/ reg[0].c = "none" /\ \E x \in 0 .. 15, y \in 0 .. 15, z \in 0 .. 15 : FromSyms(0, "iupac", <<x, y, z>>)
    \/ reg[0].c = "none" /\ \E s \in SeqsUpTo({8, 15}, 5) : Len(s) # 3 /\ FromSyms(0, "iupac", s)
    \/ /\ reg[0].c # "none"
       /\ LET q == reg[0].s
              e == IupacToAmino(q)
              m == M_IupacLookup(q)
          IN  Checked(TryToAmino(WholeReg(0), m),          \* the mechanism's answer is an allowed observation
                      /\ Len(q) # 3 => e.k = "invalid" /\ m.k = "invalid"
                      /\ (Len(q) = 3 /\ ~HasGap(q)) => m = e                      \* sound and complete
                      /\ (Len(q) = 3 /\ HasGap(q)) => e.k = "free")
    \/ reg[0].c = "none" /\ \E aa \in AminoCodes :
          Checked(TryToCodon(aa),
                  LET r == AminoToIupac(aa) IN
                  /\ r = M_ReverseLookup(aa)
                  /\ r.k = "ok" => /\ Expand(r.codon) = CodonsOf(aa)               \* all and only
                                   /\ IupacToAmino(r.codon) = [k |-> "ok", aa |-> aa]   \* translates back
                  /\ r.k = "ambiguous" =>
                        ~\E x \in 1 .. 15, y \in 1 .. 15, z \in 1 .. 15 : Expand(<<x, y, z>>) = CodonsOf(aa))
MCSpec == Init /\ [][MCNext]_vars
=============================================================================
