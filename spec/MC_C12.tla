------------------------------- MODULE MC_C12 -------------------------------
(* C12: IUPAC symbols are nucleotide sets: | is union, & is intersection,    *)
(* contains is position-wise inclusion with equal lengths -- all 256 pairs.  *)
EXTENDS MCBase
CONSTANTS MaxLen

Checked(A, P) == A /\ Assert(P, "an IUPAC set law fails on the specification")

\* mechanism: bitwise or / and of the 4-bit codes
BitOr4(x, y) == ValOf([i \in 1 .. 4 |-> IF Bit(x, i - 1) = 1 \/ Bit(y, i - 1) = 1 THEN 1 ELSE 0])
BitAnd4(x, y) == ValOf([i \in 1 .. 4 |-> IF Bit(x, i - 1) = 1 /\ Bit(y, i - 1) = 1 THEN 1 ELSE 0])

PairLaws ==
    \A x \in 0 .. 15, y \in 0 .. 15 :
        /\ IupacUnion(x, y) = BitOr4(x, y)                    \* code(S u T) = code(S) | code(T)
        /\ IupacInter(x, y) = BitAnd4(x, y)
        /\ IupacSet(IupacUnion(x, y)) = IupacSet(x) \cup IupacSet(y)
        /\ IupacSet(IupacInter(x, y)) = IupacSet(x) \cap IupacSet(y)
        /\ (IupacSet(y) \subseteq IupacSet(x)) <=> (BitAnd4(x, y) = y)     \* the contains mechanism
        /\ (IupacSet(x) \cap IupacSet(y) = {}) => IupacInter(x, y) = 0     \* gap for the empty set
ASSUME PairLaws
ASSUME \A b \in Bases : IupacSet(DnaTo("iupac", b)) = {b}
ASSUME \A x \in 0 .. 15 : IupacSet(Comp("iupac", x)) = {BaseComp(b) : b \in IupacSet(x)}

Alpha == {0, 8, 5, 15}       \* gap, A, Y, N
MCNext ==
    \/ \E s \in SeqsUpTo(Alpha, MaxLen) : FromSyms(0, "iupac", s)
    \/ \E s \in SeqsUpTo(Alpha, MaxLen) : FromSyms(1, "iupac", s)
    \/ /\ reg[0].c # "none" /\ reg[1].c # "none"
       /\ \E sx \in Sources1(0), sy \in Sources1(1) :
             \/ Checked(ContainsSl(sx, sy),
                        LET p == Resolve(sx).s  q == Resolve(sy).s IN
                        out'.res <=> (Len(p) = Len(q) /\ \A i \in 1 .. Len(p) : IupacSet(q[i]) \subseteq IupacSet(p[i])))
             \/ \E op \in {"or", "and"} :
                   /\ Len(Resolve(sx).s) = Len(Resolve(sy).s)
                   /\ Checked(BitOp(2, sx, sy, op),
                              LET p == Resolve(sx).s  q == Resolve(sy).s IN
                              /\ Len(reg'[2].s) = Len(p)
                              /\ \A i \in 1 .. Len(p) :
                                    IupacSet(reg'[2].s[i]) = IF op = "or" THEN IupacSet(p[i]) \cup IupacSet(q[i])
                                                             ELSE IupacSet(p[i]) \cap IupacSet(q[i])
                              /\ reg'[0] = reg[0] /\ reg'[1] = reg[1])
MCSpec == Init /\ [][MCNext]_vars
NoResult == reg[2].c = "none"
=============================================================================
