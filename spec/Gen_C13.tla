------------------------------- MODULE Gen_C13 -------------------------------
(* Spec -> implementation for C13: all 64 codons at all 32 positions of a     *)
(* 64-bit word (including the two positions where the codon straddles two     *)
(* words), and wrong-length codons.                                            *)
EXTENDS MCBase, Json

VARIABLE hist
gvars == <<vars, hist>>
Ev(rec) == hist' = Append(hist, rec @@ [obs |-> out'])

GInit == Init /\ hist = <<>>
Load ==
    /\ Len(hist) = 0
    /\ \E off \in 0 .. 31 : \E x \in Bases, y \in Bases, z \in Bases :
          LET s == [i \in 1 .. off |-> (i * 3 + 1) % 4] \o <<x, y, z>> \o <<1, 2>> IN
          FromSyms(0, "dna", s) /\ Ev([op |-> "fromsyms", dst |-> 0, c |-> "dna", via |-> "iter", syms |-> s, off |-> off])
Ask ==
    /\ Len(hist) = 1
    /\ LET src == [base |-> "reg", r |-> 0, path |-> <<[f |-> "r", a |-> hist[1].off, b |-> hist[1].off + 3]>>] IN
          ToAmino(src, ToAminoRes(src)) /\ Ev([op |-> "toamino", src |-> src])
GNext == Load \/ Ask
GSpec == GInit /\ [][GNext]_gvars
Emit == (Len(hist) = 2) => PrintT(<<"REPLAY", ToJson(hist)>>)
=============================================================================
