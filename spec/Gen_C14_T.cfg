SPECIFICATION GSpec
CONSTANTS
    NR = 1
    NK = 1
    NT = 1
    NI = 1
    Offsets = {0, 1, 5, 13, 14, 15, 16, 30}
INVARIANT Emit
CHECK_DEADLOCK FALSE
