SPECIFICATION MCSpec
CONSTANTS
    NR = 1
    NK = 1
    NT = 1
    NI = 1
    MaxLen = 3
CHECK_DEADLOCK FALSE
