//! Driver plumbing shared by all scenarios: execute an op on the real library,
//! log `op + obs` as one ndjson line.
use crate::cx::Cx;
use crate::rng::Rng;
use crate::world::{merge, World, NREG};
use serde_json::{json, Value};

/// iterator adaptors for producers fed from iterators (see world::with_loose_iter)
pub const ADAPTORS: [&str; 7] = ["filter", "filter_map", "flat_map", "take_while", "skip_while", "chain", "from_fn"];

pub struct Drv<A: Cx> {
    pub w: World<A>,
    pub rng: Rng,
    pub out: Vec<String>,
    /// when set, every line is written (and flushed) as it is produced and the call about to be
    /// made is recorded in `<path>.intent`, so that a crash of the process is attributable
    pub sink: Option<(std::io::BufWriter<std::fs::File>, String)>,
}

pub fn step(f: &str, a: usize, b: usize) -> Value {
    json!({"f": f, "a": a, "b": b})
}

pub fn whole(r: usize) -> Value {
    json!({"base": "reg", "r": r, "path": []})
}

pub fn sl(r: usize, a: usize, b: usize) -> Value {
    json!({"base": "reg", "r": r, "path": [step("r", a, b)]})
}

impl<A: Cx> Drv<A> {
    pub fn new(rng: Rng) -> Self {
        Drv { w: World::new(), rng, out: Vec::new(), sink: None }
    }

    pub fn stream_to(&mut self, path: &str) {
        let f = std::fs::File::create(path).expect("harness: cannot create the trace file");
        self.sink = Some((std::io::BufWriter::new(f), format!("{path}.intent")));
    }

    pub fn log_line(&mut self, line: String) {
        use std::io::Write;
        if let Some((w, _)) = self.sink.as_mut() {
            writeln!(w, "{line}").unwrap();
            w.flush().unwrap();
        }
        self.out.push(line);
    }

    pub fn emit(&mut self, op: Value) -> Value {
        if let Some((_, intent)) = self.sink.as_ref() {
            let _ = std::fs::write(intent, op.to_string());
        }
        let obs = self.w.exec(&op);
        self.log_line(merge(&op, obs.clone()).to_string());
        obs
    }

    pub fn reset(&mut self) {
        self.emit(json!({"op": "reset"}));
    }

    pub fn len(&self, r: usize) -> usize {
        if r < NREG {
            self.w.regs[r].as_ref().map_or(0, |s| s.len())
        } else {
            self.w.lits[r - NREG].map_or(0, |s| s.len())
        }
    }

    /// all canonical codes of the codec (from the documented item list)
    pub fn codes(&self) -> Vec<u8> {
        A::items().map(|x| x.to_bits()).collect()
    }

    pub fn rand_syms(&mut self, n: usize) -> Vec<u8> {
        let c = self.codes();
        (0..n).map(|_| *self.rng.pick(&c)).collect()
    }

    /// random valid text of n symbols
    pub fn rand_text(&mut self, n: usize) -> Vec<u8> {
        (0..n).map(|_| *self.rng.pick(A::ALPHABET)).collect()
    }

    /// a random in-bounds range step of any of the seven forms over a sequence of length n
    pub fn rand_step(&mut self, n: usize) -> Value {
        loop {
            let f = *self.rng.pick(&["r", "ri", "rt", "rti", "rf", "full", "idx"]);
            let a = self.rng.range(0, n);
            let b = self.rng.range(a, n);
            match f {
                "r" => return step("r", a, b),
                "ri" if b > a => return step("ri", a, b - 1),
                "rt" => return step("rt", 0, b),
                "rti" if b > 0 => return step("rti", 0, b - 1),
                "rf" => return step("rf", a, 0),
                "full" => return step("full", 0, 0),
                "idx" if a < n => return step("idx", a, 0),
                _ => {}
            }
        }
    }

    /// random in-bounds source over register r: nested path of depth 0..=3
    pub fn rand_src(&mut self, r: usize) -> Value {
        let mut n = self.len(r);
        let depth = self.rng.below(4);
        let mut path = Vec::new();
        for _ in 0..depth {
            let st = self.rand_step(n);
            n = step_len(&st, n);
            path.push(st);
        }
        json!({"base": "reg", "r": r, "path": path})
    }

    pub fn obs(&mut self, src: Value) -> Value {
        self.emit(json!({"op": "obs", "src": src, "gets": [], "nths": []}))
    }
}

/// length of the slice a (valid) step selects from a sequence of length n
pub fn step_len(st: &Value, n: usize) -> usize {
    let a = st["a"].as_u64().unwrap() as usize;
    let b = st["b"].as_u64().unwrap() as usize;
    match st["f"].as_str().unwrap() {
        "r" => b - a,
        "ri" => b + 1 - a,
        "rt" => b,
        "rti" => b + 1,
        "rf" => n - a,
        "full" => n,
        "idx" => 1,
        _ => unreachable!(),
    }
}

/// lengths that straddle 64-bit word boundaries for a symbol width
pub fn boundary_lens(w: usize) -> Vec<usize> {
    let mut v = vec![0, 1, 2, 3];
    for words in 1..=3 {
        let n = words * 64 / w;
        for d in [-1i64, 0, 1] {
            let x = n as i64 + d;
            if x >= 0 {
                v.push(x as usize);
            }
        }
        if (words * 64) % w != 0 {
            v.push(n + 2);
        }
    }
    v.sort();
    v.dedup();
    v
}
