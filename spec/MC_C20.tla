------------------------------- MODULE MC_C20 -------------------------------
(* C20: soft masking changes case only and commutes with complement/reverse. *)
EXTENDS MCBase
CONSTANTS MaxLen

Checked(A, P) == A /\ Assert(P, "a masking law fails on the specification")

\* all symbols of the 5-bit codec; the documented symbols of the 4-bit one
SymsOf(c) == IF c = "miupac" THEN CodesOf(c) ELSE MDnaCaseSyms \cup MDnaFixedSyms

SymLaw(c, x) ==
    /\ c = "miupac" =>
          /\ Char(c, Mask(c, x)) = (IF MIupacSet(x) = {} THEN chDot ELSE Lower(Char(c, Unmask(c, x))))
          /\ Char(c, Unmask(c, x)) \in {Items("iupac")[i].ch : i \in 1 .. 16}           \* upper-case form
          /\ Mask(c, Mask(c, x)) = Mask(c, x) /\ Unmask(c, Unmask(c, x)) = Unmask(c, x)
          /\ Unmask(c, Mask(c, x)) = Unmask(c, x) /\ Mask(c, Unmask(c, x)) = Mask(c, x)
          /\ MIupacSet(Mask(c, x)) = MIupacSet(x) /\ MIupacSet(Unmask(c, x)) = MIupacSet(x)
          /\ Comp(c, Mask(c, x)) = Mask(c, Comp(c, x)) /\ Comp(c, Unmask(c, x)) = Unmask(c, Comp(c, x))
    /\ c = "mdna" =>
          /\ x \in MDnaFixedSyms => Mask(c, x) = x /\ Unmask(c, x) = x
          /\ x \in MDnaCaseSyms =>
                /\ Mask(c, Mask(c, x)) = x
                /\ Char(c, Mask(c, x)) \in {Char(c, x) + 32, Char(c, x) - 32}          \* the other case of the same letter
          /\ Comp(c, Mask(c, x)) = Mask(c, Comp(c, x))

SeqLaw(c, s) ==
    /\ Len(MaskSeq(c, s)) = Len(s) /\ Len(UnmaskSeq(c, s)) = Len(s)
    /\ \A i \in 1 .. Len(s) : MaskSeq(c, s)[i] = Mask(c, s[i]) /\ UnmaskSeq(c, s)[i] = Unmask(c, s[i])
    /\ MaskSeq(c, RevSeq(s)) = RevSeq(MaskSeq(c, s))
    /\ MaskSeq(c, CompSeq(c, s)) = CompSeq(c, MaskSeq(c, s))
    /\ LET f(p) == Mask(c, Decode(c, p))
       IN  Unpack(M_MapChunks(Pack(s, W(c)), W(c), f), W(c)) = MaskSeq(c, s)

Pick(c) == IF c = "miupac" THEN {16, 27, 0, 20, 4, 9} ELSE {8, 7, 0, 15, 12, 10}

MCNext ==
    \/ \E c \in {"mdna", "miupac"} : \E s \in SeqsUpTo(Pick(c), MaxLen) :
          Checked(FromSyms(0, c, s), SeqLaw(c, s) /\ \A x \in SymsOf(c) : SymLaw(c, x))
    \/ /\ reg[0].c # "none"
       /\ \E t \in {"mask", "unmask"} :
             \/ Checked(Copying(1, WholeReg(0), t), reg'[0] = reg[0] /\ reg'[1].s = Transform(reg[0].c, reg[0].s, t))
             \/ Checked(InPlace(0, t), Len(reg'[0].s) = Len(reg[0].s))
MCSpec == Init /\ [][MCNext]_vars
NoCopy == reg[1].c = "none"
=============================================================================
