------------------------------- MODULE Gen_C01 -------------------------------
(* Spec -> implementation for C01: EVERY byte string of length <= MaxLen over a  *)
(* per-codec alphabet of two symbol characters, one byte that is a symbol in no   *)
(* codec, the case twin of a symbol and a non-ASCII lead byte, through every byte  *)
(* entry point (and every text entry point when the string is ASCII), padded to a  *)
(* machine-word boundary by a valid prefix.                                        *)
EXTENDS MCBase, Json
CONSTANTS MaxLen, GenCodecs

VARIABLE hist
gvars == <<vars, hist>>
Ev(rec) == hist' = Append(hist, rec @@ [obs |-> out'])

BytesFor(c) == {Items(c)[1].ch, Items(c)[Len(Items(c))].ch, 74, Items(c)[1].ch + 32, 195}
Ascii(bytes) == \A i \in 1 .. Len(bytes) : bytes[i] < 128
Prefix(c, n) == [i \in 1 .. n |-> Items(c)[((i * 3) % Len(Items(c))) + 1].ch]

GInit == Init /\ hist = <<>>
Do ==
    /\ Len(hist) = 0
    /\ \E c \in GenCodecs : \E t \in SeqsUpTo(BytesFor(c), MaxLen) : \E pad \in {0, (64 \div W(c)) - 1} :
          LET bytes == Prefix(c, pad) \o t IN
          \E entry \in {"bytes", "vec", "collect", "str", "string", "refstring", "fromstr"} :
             /\ entry \in {"str", "string", "refstring", "fromstr"} => Ascii(bytes)
             /\ Parse(0, c, bytes)
             /\ Ev([op |-> "parse", dst |-> 0, c |-> c, entry |-> entry, bytes |-> bytes])
GNext == Do
GSpec == GInit /\ [][GNext]_gvars
Emit == (Len(hist) = 1) => PrintT(<<"REPLAY", ToJson(hist)>>)
=============================================================================
