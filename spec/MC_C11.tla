------------------------------- MODULE MC_C11 -------------------------------
(* C11: the iterator machines.  Safety: what has been handed out is always a *)
(* prefix of the items owed, each exactly once.  Liveness: every iterator    *)
(* terminates (checked under weak fairness of ItNext, no state constraint).  *)
EXTENDS MCBase
CONSTANTS MaxLen

Parent(n) == [i \in 1 .. n |-> 64 + i]
Checked(A, P) == A /\ Assert(P, "an iterator law fails on the specification")

Expected(kind, x, y, w) ==
    CASE kind = "iter" -> x
      [] kind = "rev" -> [i \in 1 .. Len(x) |-> x[Len(x) + 1 - i]]
      [] kind = "chain" -> x \o y
      [] kind = "windows" -> [i \in 1 .. (IF w > Len(x) THEN 0 ELSE Len(x) - w + 1) |-> View("text", SubSeq(x, i, i + w - 1))]
      [] kind = "chunks" -> [i \in 1 .. (Len(x) \div w) |-> View("text", SubSeq(x, (i - 1) * w + 1, i * w))]

New(i) ==
    \E kind \in {"iter", "rev", "chain", "windows", "chunks"} : \E src \in Sources1(0) : \E w \in 1 .. MaxLen + 2 :
        /\ kind \in {"iter", "rev", "chain"} => w = 1
        /\ ~itr[i].live
        /\ Checked(ItNew(i, kind, src, WholeReg(1), w),
                   /\ itr'[i].items = Expected(kind, Resolve(src).s, reg[1].s, w)
                   /\ kind = "windows" => Len(itr'[i].items) = NWindows(Len(Resolve(src).s), w)
                   /\ kind = "chunks" => Len(itr'[i].items) = Len(Resolve(src).s) \div w)

Next1(i) ==
    Checked(ItNext(i),
            /\ itr'[i].items = itr[i].items                            \* what is owed never changes
            /\ itr'[i].pos = itr[i].pos + 1
            /\ (itr[i].pos < Len(itr[i].items)) => out' = [some |-> TRUE, item |-> itr[i].items[itr[i].pos + 1]]
            /\ (itr[i].pos >= Len(itr[i].items)) => out' = [some |-> FALSE])

MCInit ==
    /\ Init
MCNext ==
    \/ \E n \in 0 .. MaxLen : reg[0].c = "none" /\ FromSyms(0, "text", Parent(n))
    \/ reg[0].c # "none" /\ reg[1].c = "none" /\ \E n \in 0 .. 2 : FromSyms(1, "text", [i \in 1 .. n |-> 80 + i])
    \/ (reg[0].c # "none" /\ reg[1].c # "none" /\ \E i \in IRegIds : New(i))
    \/ \E i \in IRegIds : Next1(i)
    \* editing the source later does not change what a live iterator owes
    \/ (reg[0].c # "none" /\ \E i \in IRegIds : itr[i].live /\ Len(reg[0].s) < MaxLen /\ Push(0, 90))
Fair == \A i \in IRegIds : WF_vars(Next1(i))
MCSpec == MCInit /\ [][MCNext]_vars /\ Fair

Prefix ==
    \A i \in IRegIds : itr[i].live => itr[i].pos <= Len(itr[i].items) + 1
=============================================================================
