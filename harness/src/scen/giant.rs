//! giant_<focus>: the same families of calls on a sequence longer than 2^32 bits (spec/Giant.tla).
//! Positions of interest: both ends, bit 2^31 (half way: signed 32-bit arithmetic) and bit 2^32
//! (`edge`: unsigned 32-bit arithmetic), each with its neighbours.  Calls whose cost is linear in
//! the distance walked are left to the optimised profiles.
use crate::cx::Cx;
use crate::drv::{step, Drv};
use crate::giant::{giant_edge, giant_len};
use serde_json::{json, Value};

fn r(a: usize, b: usize) -> Value {
    step("r", a, b)
}

pub fn run<A: Cx>(d: &mut Drv<A>, focus: &str, scale: usize) {
    let n = giant_len::<A>();
    let e = giant_edge::<A>();
    let h = e / 2;
    let c = A::NAME;
    let fast = !cfg!(debug_assertions);
    let marks = [h - 1, h, h + 1, e - 2, e - 1, e, e + 1, e + 17];
    match focus {
        "c03" => {
            let pos = vec![0, 1, h - 1, h, h + 1, e - 2, e - 1, e, e + 1, e + 17, n - 2, n - 1];
            for how in ["nth", "get", "idx", "seqnth", "seqget", "seqidx"] {
                for ch in pos.chunks(6) {
                    d.emit(json!({"op": "gobs", "c": c, "path": [], "probes": ch, "how": how}));
                }
            }
            if fast {
                d.emit(json!({"op": "gobs", "c": c, "path": [], "probes": [e - 1, e, n - 1], "how": "iternth"}));
            }
            // Option-returning access past the end
            d.emit(json!({"op": "gobs", "c": c, "path": [], "probes": [n - 1, n, n + 1], "how": "get"}));
            d.emit(json!({"op": "gobs", "c": c, "path": [], "probes": [n - 1, n, n + 1], "how": "seqget"}));
            // panicking access past the end
            d.emit(json!({"op": "gobs", "c": c, "path": [], "probes": [n], "how": "nth"}));
            for &p in &marks {
                // every range form cut at p
                let forms = vec![
                    (vec![r(p, p + 20)], vec![0, 1, 19]),
                    (vec![step("ri", p, p + 3)], vec![0, 3]),
                    (vec![step("rf", p, 0)], vec![0, 1, n - p - 1]),
                    (vec![step("rt", 0, p)], vec![0, p - 1]),
                    (vec![step("rti", 0, p)], vec![0, p - 1, p]),
                    (vec![step("idx", p, 0)], vec![0]),
                    (vec![step("full", 0, 0)], vec![p]),
                ];
                for (path, probes) in forms {
                    for how in ["nth", "get", "idx"] {
                        d.emit(json!({"op": "gobs", "c": c, "path": path, "probes": probes, "how": how}));
                    }
                }
                d.emit(json!({"op": "gview", "c": c, "path": [r(p, p + 20)]}));
                d.emit(json!({"op": "gview", "c": c, "path": [step("ri", p - 2, p + 2)]}));
                d.emit(json!({"op": "gview", "c": c, "path": [step("idx", p, 0)]}));
                // re-slicing: offsets add up
                d.emit(json!({"op": "gview", "c": c, "path": [step("rf", p - 5, 0), r(3, 30)]}));
                d.emit(json!({"op": "gview", "c": c, "path": [step("rt", 0, p + 7), step("rf", p - 3, 0)]}));
                d.emit(json!({"op": "gview", "c": c, "path": [r(p - 100, p + 100), r(98, 103), step("ri", 1, 3)]}));
                d.emit(json!({"op": "gobs", "c": c, "path": [step("rf", 7, 0), step("rf", p - 9, 0)], "probes": [0, 1, 2, n - p - 2], "how": "nth"}));
            }
            // steps just past the end
            d.emit(json!({"op": "gview", "c": c, "path": [r(e, n + 1)]}));
            d.emit(json!({"op": "gview", "c": c, "path": [step("idx", n, 0)]}));
            d.emit(json!({"op": "gview", "c": c, "path": [step("rf", n + 1, 0)]}));
            d.emit(json!({"op": "gview", "c": c, "path": [step("rf", n, 0)]}));
            d.emit(json!({"op": "gview", "c": c, "path": [step("rf", e, 0), r(n - e - 3, n - e + 1)]}));
            // random windows: near the marks and anywhere
            for i in 0..40 * scale.max(1) {
                let len = d.rng.range(0, 40);
                let a = if i % 2 == 0 {
                    let m = marks[d.rng.range(0, marks.len() - 1)];
                    m - 2000 + d.rng.range(0, 4000)
                } else {
                    d.rng.range(0, n - 41)
                };
                d.emit(json!({"op": "gview", "c": c, "path": [r(a, a + len)]}));
            }
        }
        "c11" => {
            for (kind, w) in [("iter", 0), ("rev", 0), ("windows", 3), ("chunks", 3), ("chunks", 7)] {
                for &p in &[h, e] {
                    // a window astride the mark: constant cost
                    for via in ["loop", "nth"] {
                        d.emit(json!({"op": "git", "c": c, "path": [r(p - 50, p + 50)], "kind": kind, "w": w, "skip": 40, "take": 12, "via": via}));
                    }
                    // a run that starts just before the mark and goes to the end of the sequence
                    if kind == "rev" && p == h && !fast {
                        continue;
                    }
                    d.emit(json!({"op": "git", "c": c, "path": [step("rf", p - 10, 0)], "kind": kind, "w": w, "skip": if kind == "rev" { n - p - 5 } else { 0 }, "take": 25, "via": if kind == "rev" && !fast { "nth" } else { "loop" }}));
                    // a run from the start of the sequence up to just after the mark
                    if fast || kind == "rev" {
                        let total = match kind {
                            "chunks" => (p + 10) / w,
                            "windows" => p + 10 - w + 1,
                            _ => p + 10,
                        };
                        let skip = if kind == "rev" { 0 } else { total - 8 };
                        d.emit(json!({"op": "git", "c": c, "path": [step("rt", 0, p + 10)], "kind": kind, "w": w, "skip": skip, "take": 12, "via": "nth"}));
                    }
                }
                // the tail of the whole sequence, counted from the front
                if fast {
                    let total = match kind {
                        "chunks" => n / w,
                        "windows" => n - w + 1,
                        _ => n,
                    };
                    d.emit(json!({"op": "git", "c": c, "path": [], "kind": kind, "w": w, "skip": total - 3, "take": 5, "via": "nth"}));
                }
            }
        }
        "c06" => {
            let xs3: Vec<u8> = d.rand_syms(3);
            let xs5: Vec<u8> = d.rand_syms(5);
            let x = d.rand_syms(1)[0];
            let around = |p: usize| -> Vec<usize> { (p - 3..p + 6).collect() };
            d.emit(json!({"op": "gedit", "c": c, "e": {"t": "clone"}, "probes": [0, h, e - 1, e, e + 1, n - 1, n]}));
            d.emit(json!({"op": "gedit", "c": c, "e": {"t": "push", "x": x}, "probes": [e, n - 1, n, n + 1]}));
            d.emit(json!({"op": "gedit", "c": c, "e": {"t": "extend", "xs": xs5}, "probes": around(n)}));
            d.emit(json!({"op": "gedit", "c": c, "e": {"t": "append", "xs": xs5}, "probes": around(n)}));
            for &p in &[h, e] {
                for m in [p - 1, p, p + 1, p + 3] {
                    d.emit(json!({"op": "gedit", "c": c, "e": {"t": "truncate", "n": m}, "probes": [0, m - 2, m - 1, m, m + 1]}));
                }
            }
            d.emit(json!({"op": "gedit", "c": c, "e": {"t": "truncate", "n": n + 5}, "probes": [n - 1, n]}));
            d.emit(json!({"op": "gedit", "c": c, "e": {"t": "insert", "i": n - 4, "xs": xs3}, "probes": around(n - 4)}));
            d.emit(json!({"op": "gedit", "c": c, "e": {"t": "insert", "i": n, "xs": xs3}, "probes": around(n)}));
            d.emit(json!({"op": "gedit", "c": c, "e": {"t": "remove", "a": n - 6, "b": n - 2}, "probes": around(n - 6)}));
            // the tail that moves starts at the mark
            let mut pr = around(e + 1);
            pr.extend([n - 1, n, n + 2, n + 3]);
            d.emit(json!({"op": "gedit", "c": c, "e": {"t": "insert", "i": e + 1, "xs": xs3}, "probes": pr}));
            let mut pr = around(e);
            pr.extend([n - 6, n - 5, n - 4]);
            d.emit(json!({"op": "gedit", "c": c, "e": {"t": "remove", "a": e, "b": e + 4}, "probes": pr}));
            if fast {
                let mut pr = around(h);
                pr.extend([e - 1, e, e + 1, e + 2, e + 3, n + 2]);
                d.emit(json!({"op": "gedit", "c": c, "e": {"t": "insert", "i": h, "xs": xs3}, "probes": pr}));
                let mut pr = vec![0, 1, 2, 3, 4];
                pr.extend(around(e));
                d.emit(json!({"op": "gedit", "c": c, "e": {"t": "insert", "i": 0, "xs": xs3}, "probes": pr}));
            }
        }
        "c04" => {
            let full = 64 / A::BITS as usize;
            for &p in &[h - 1, h, e - 3, e - 1, e, e + 5, n - full] {
                for k in [1, 2, full - 1, full] {
                    d.emit(json!({"op": "gint", "c": c, "path": [r(p, p + k)]}));
                }
                d.emit(json!({"op": "gint", "c": c, "path": [step("rf", p - 4, 0), r(4, 4 + full)]}));
                // longer than a machine word: refused, never truncated
                d.emit(json!({"op": "gint", "c": c, "path": [r(p, p + full + 1)]}));
                d.emit(json!({"op": "gint", "c": c, "path": [step("rf", p, 0)]}));
            }
            d.emit(json!({"op": "gint", "c": c, "path": []}));
            d.emit(json!({"op": "gint", "c": c, "path": [step("rt", 0, e + 1)]}));
        }
        "c02" => {
            for k in [0usize, 1, 2, 3, 17, 64, 1000, 4000] {
                // content 2^32 bits apart differs
                d.emit(json!({"op": "geq", "c": c, "a": [r(e + k, e + k + 24)], "b": [r(k, k + 24)]}));
                d.emit(json!({"op": "geq", "c": c, "a": [r(e + k, e + k + 24)], "b": [step("rf", e, 0), r(k, k + 24)]}));
                d.emit(json!({"op": "geq", "c": c, "a": [r(h + k, h + k + 24)], "b": [r(k, k + 24)]}));
            }
            for &p in &marks {
                // (canon: the window is == to, and hashes like, the sequence rebuilt from its symbols)
                d.emit(json!({"op": "gview", "c": c, "path": [r(p - 3, p + 21)]}));
                d.emit(json!({"op": "gview", "c": c, "path": [step("rf", p, 0), step("rt", 0, 16)]}));
                d.emit(json!({"op": "gcopy", "c": c, "path": [r(p - 3, p + 21)], "t": "toowned"}));
            }
        }
        "c07" => {
            for &p in &[h - 10, h, e - 10, e - 1, e, n - 21] {
                let mut ts = vec!["rev", "toowned"];
                if A::seq_to_comp(&bio_seq::prelude::Seq::<A>::new()).is_some() {
                    ts.extend(["comp", "revcomp"]);
                }
                for t in ts {
                    d.emit(json!({"op": "gcopy", "c": c, "path": [r(p, p + 21)], "t": t}));
                }
            }
        }
        "c08" => {
            let full = 64 / A::BITS as usize;
            for &p in &[h - 1, h, e - 3, e - 1, e, e + 5, n - full] {
                for k in [1, 3, full] {
                    d.emit(json!({"op": "gkmer", "c": c, "path": [r(p, p + k)], "k": k}));
                }
                d.emit(json!({"op": "gkmer", "c": c, "path": [r(p, p + 4)], "k": 3}));
                // a wrong length is an error, however long the slice
                d.emit(json!({"op": "gkmer", "c": c, "path": [step("rf", p, 0)], "k": full}));
            }
            d.emit(json!({"op": "gkmer", "c": c, "path": [], "k": 3}));
            d.emit(json!({"op": "gkmer", "c": c, "path": [step("rt", 0, e + 3)], "k": 3}));
        }
        o => panic!("harness: no giant scenario for {o}"),
    }
}
