//! C04: documented little-endian layout -- integer conversions at every offset,
//! the exported word image of sequences produced in every way, rebuilding from an
//! image with every symbol count.
use crate::cx::Cx;
use crate::drv::{sl, whole, Drv};
use serde_json::json;

fn limbs_of_syms<A: Cx>(syms: &[u8], nwords: usize) -> Vec<u64> {
    let w = A::BITS as usize;
    let mut words = vec![0u64; nwords];
    for (i, &c) in syms.iter().enumerate() {
        for b in 0..w {
            if (c >> b) & 1 == 1 {
                let pos = i * w + b;
                words[pos / 64] |= 1u64 << (pos % 64);
            }
        }
    }
    let mut l = Vec::new();
    for x in words {
        for i in 0..4 {
            l.push((x >> (16 * i)) & 0xffff);
        }
    }
    l
}

pub fn run<A: Cx>(d: &mut Drv<A>, scale: usize, all_offsets: bool) {
    let w = A::BITS as usize;
    let kmax = 64 / w;
    let noff = 64 / gcd(w, 64);
    for _round in 0..scale.max(1) {
        // ---- integers from slices at offsets
        let parent_len = noff + kmax + 8;
        let t = d.rand_syms(parent_len);
        d.emit(json!({"op": "fromsyms", "dst": 0, "c": A::NAME, "via": "iter", "syms": t}));
        let offs: Vec<usize> = if all_offsets { (0..noff).collect() } else { vec![0, 1, noff / 2, noff - 1, d.rng.below(noff)] };
        for &o in &offs {
            for &k in &[1usize, 2, kmax / 2, kmax - 1, kmax, kmax + 1, kmax + 3] {
                if k == 0 || o + k > parent_len {
                    continue;
                }
                d.emit(json!({"op": "toint", "src": sl(0, o, o + k), "via": "try", "fallible": true, "width": 64}));
                if d.rng.chance(1, 2) {
                    let via = *d.rng.pick(&["fromseq", "fromseqcollect"]);
                    d.emit(json!({"op": "toint", "src": sl(0, o, o + k), "via": via, "fallible": false, "width": 64}));
                }
                if k * w <= 8 || d.rng.chance(1, 6) {
                    d.emit(json!({"op": "toint", "src": sl(0, o, o + k), "via": "u8", "fallible": false, "width": 8}));
                }
                // the same symbols as a k-mer: its public word and usize::from(&kmer)
                if k <= kmax && crate::kd::KS.contains(&k) {
                    d.emit(json!({"op": "kfrom", "kd": 0, "src": sl(0, o, o + k), "k": k, "st": "usize", "via": "slice"}));
                    d.emit(json!({"op": "kobs", "ks": 0, "via": "usizefrom"}));
                }
            }
        }
        // ---- value patterns: runs of the lowest / highest code (all-zero and all-one words), too long to fit
        {
            let codes = d.codes();
            let lo = *codes.iter().min().unwrap();
            let hi = *codes.iter().max().unwrap();
            for (fill, tailv) in [(lo, lo), (hi, hi), (lo, hi), (hi, lo)] {
                let mut v = vec![fill; kmax + 40];
                v.push(tailv);
                d.emit(json!({"op": "fromsyms", "dst": 11, "c": A::NAME, "via": "iter", "syms": v}));
                for (a, k) in [(0usize, kmax), (1, kmax), (0, kmax + 1), (3, kmax + 1), (2, kmax + 30), (kmax + 40 - 1, 2)] {
                    d.emit(json!({"op": "toint", "src": sl(11, a, a + k), "via": "try", "fallible": true, "width": 64}));
                }
                d.emit(json!({"op": "toint", "src": sl(11, 1, kmax + 9), "via": "fromseq", "fallible": false, "width": 64}));
            }
        }
        // ---- the by-value conversion of a value with a history (truncated / drained / rebuilt)
        for _ in 0..4 {
            let k = d.rng.range(1, kmax);
            let extra = d.rng.range(1, kmax + 3);
            let tt = d.rand_syms(k + extra);
            d.emit(json!({"op": "fromsyms", "dst": 10, "c": A::NAME, "via": "iter", "syms": tt}));
            match d.rng.below(3) {
                0 => {
                    d.emit(json!({"op": "truncate", "dst": 10, "n": k}));
                }
                1 => {
                    d.emit(json!({"op": "remove", "dst": 10, "range": {"f": "rf", "a": k, "b": 0}}));
                }
                _ => {
                    d.emit(json!({"op": "remove", "dst": 10, "range": {"f": "rt", "a": 0, "b": extra}}));
                }
            }
            d.emit(json!({"op": "tointtake", "r": 10}));
        }
        // ---- decoding integers as k-mers (values below 2^(K*w), canonical patterns)
        for &k in &[1usize, 2, 3, kmax / 2, kmax - 1, kmax] {
            if k == 0 || !crate::kd::KS.contains(&k) {
                continue;
            }
            let s = d.rand_syms(k);
            let l = limbs_of_syms::<A>(&s, 1);
            d.emit(json!({"op": "kfromint", "kd": 1, "c": A::NAME, "k": k, "st": "usize", "via": "from", "limbs": l}));
            d.emit(json!({"op": "kfromint", "kd": 2, "c": A::NAME, "k": k, "st": "u64", "via": "from", "limbs": l}));
            d.emit(json!({"op": "kfromint", "kd": 3, "c": A::NAME, "k": k, "st": "u64", "via": "fromusize", "limbs": l}));
            d.emit(json!({"op": "obs", "src": {"base": "kmer", "r": 1, "path": []}, "gets": [0, k - 1, k], "nths": [0, k - 1]}));
        }
        // ---- word image of sequences however they were produced
        let n = d.rng.range(1, 3 * 64 / w + 5);
        let off = d.rng.range(1, noff + 3);
        let t = d.rand_syms(n + off + 2);
        d.emit(json!({"op": "fromsyms", "dst": 1, "c": A::NAME, "via": "vec", "syms": t}));
        d.emit(json!({"op": "intoraw", "r": 1}));
        let txt = d.rand_text(n);
        d.emit(json!({"op": "parse", "dst": 2, "c": A::NAME, "entry": "str", "bytes": txt}));
        d.emit(json!({"op": "intoraw", "r": 2}));
        // copied from an offset slice
        for via in ["to_owned", "from", "into", "collect"] {
            d.emit(json!({"op": "toowned", "dst": 3, "src": sl(1, off, off + n), "via": via}));
            d.emit(json!({"op": "intoraw", "r": 3}));
        }
        // handed over from bitvec's own types: an owned bit vector (with and without spare capacity), a
        // bit slice that starts anywhere inside a word
        for (via, pad) in [("bv", 0), ("bv", off * w % 64 + 1), ("bvcap", 3), ("bs", 0), ("bs", off * w % 64 + 1), ("bs", 64 + 5), ("bs", 1)] {
            let xs = d.rand_syms(n);
            d.emit(json!({"op": "fromsyms", "dst": 3, "c": A::NAME, "via": via, "pad": pad, "syms": xs}));
            d.emit(json!({"op": "intoraw", "r": 3}));
            d.emit(json!({"op": "clone", "dst": 7, "r": 3}));
            d.emit(json!({"op": "intoraw", "r": 7}));
        }
        // results of reverse / complement of an offset slice
        d.emit(json!({"op": "copying", "dst": 4, "src": sl(1, off, off + n), "t": "rev", "via": "slice"}));
        d.emit(json!({"op": "intoraw", "r": 4}));
        if matches!(A::NAME, "dna" | "iupac" | "mdna" | "miupac" | "degen" | "x3") {
            d.emit(json!({"op": "copying", "dst": 4, "src": sl(1, off, off + n), "t": "comp", "via": "slice"}));
            d.emit(json!({"op": "intoraw", "r": 4}));
            d.emit(json!({"op": "copying", "dst": 4, "src": sl(1, off, off + n), "t": "revcomp", "via": "slice"}));
            d.emit(json!({"op": "intoraw", "r": 4}));
        }
        if A::NAME == "iupac" {
            let o2 = d.rng.range(0, 2);
            for (t, via) in [("or", "ref"), ("and", "ref"), ("or", "owned"), ("and", "ownedcollect")] {
                d.emit(json!({"op": "bitop", "dst": 5, "x": sl(1, off, off + n), "y": sl(1, o2, o2 + n), "t": t, "via": via}));
                d.emit(json!({"op": "intoraw", "r": 5}));
            }
        }
        // edited: the copy keeps being used after clear / truncate / pushes / removals
        d.emit(json!({"op": "toowned", "dst": 6, "src": sl(1, off, off + n), "via": "to_owned"}));
        for _ in 0..4 {
            match d.rng.below(6) {
                0 => {
                    let k = d.rng.range(0, d.len(6));
                    d.emit(json!({"op": "truncate", "dst": 6, "n": k}));
                }
                1 => {
                    d.emit(json!({"op": "clear", "dst": 6}));
                }
                2 => {
                    let x = d.rand_syms(1)[0];
                    d.emit(json!({"op": "push", "dst": 6, "x": x}));
                }
                3 => {
                    let st = d.rand_step(d.len(6));
                    d.emit(json!({"op": "remove", "dst": 6, "range": st}));
                }
                4 => {
                    let s = d.rand_src(1);
                    d.emit(json!({"op": "append", "dst": 6, "src": s}));
                }
                _ => {
                    let s = d.rand_src(1);
                    d.emit(json!({"op": "prepend", "dst": 6, "src": s}));
                }
            }
            d.emit(json!({"op": "intoraw", "r": 6}));
        }
        d.emit(json!({"op": "clone", "dst": 7, "r": 3}));
        d.emit(json!({"op": "intoraw", "r": 7}));
        // ---- rebuilding from an image with every symbol count
        for &words in &[1usize, 2, 3] {
            let cap = words * 64 / w;
            let m = d.rng.range(0, cap);
            let s = d.rand_syms(m);
            let l = limbs_of_syms::<A>(&s, words);
            let counts: Vec<usize> = if words == 1 || all_offsets {
                (0..=cap + 2).collect()
            } else {
                vec![0, 1, m, cap - 1, cap, cap + 1, cap + 2, 2 * cap, cap * w, cap * w + 1]
            };
            for n in counts {
                d.emit(json!({"op": "fromraw", "dst": 8, "c": A::NAME, "n": n, "limbs": l}));
            }
            if A::NAME == "text" {
                // the text codec's own conversion from a word vector: the whole image
                d.emit(json!({"op": "fromraw", "dst": 8, "c": A::NAME, "n": words * 8, "limbs": l, "via": "vecusize"}));
                d.emit(json!({"op": "intoraw", "r": 8}));
            }
            // counts far beyond any image, among them those whose bit count wraps around 2^64 to
            // something the image does hold
            let t = (w as u64).trailing_zeros();
            let mut far: Vec<u64> = vec![1 << 31, 1 << 62, 1 << 63, (1 << 63) + 1, u64::MAX];
            if t > 0 {
                for k in [0u64, 1, m as u64, cap as u64] {
                    far.push(k + (1 << (64 - t)));
                }
            }
            for n in far {
                let nl = json!([n & 0xffff, (n >> 16) & 0xffff, (n >> 32) & 0xffff, n >> 48]);
                d.emit(json!({"op": "fromraw", "dst": 8, "c": A::NAME, "nl": nl, "limbs": l}));
            }
        }
        // from_raw(into_raw(s), len(s)) == s, for an image taken from a real sequence
        let o = d.emit(json!({"op": "intoraw", "r": 3}));
        let nn = d.len(3);
        d.emit(json!({"op": "fromraw", "dst": 9, "c": A::NAME, "n": nn, "limbs": o["limbs"]}));
        d.emit(json!({"op": "eq", "x": {"kind": "seq", "src": whole(9)}, "y": {"kind": "seq", "src": whole(3)}}));
        d.reset();
    }
}

fn gcd(a: usize, b: usize) -> usize {
    if b == 0 { a } else { gcd(b, a % b) }
}
