#!/bin/bash
# bin/confirm_seed.sh <Cxx> [<srcdir>]  -- development aid: confirm a sub-agent's seeded change in a fresh
# scratch worktree: patch applies, existing suite green with it, demo red with it and green without.
set -u
id="$1"; src="${2:-/tmp/wt_$id/_seed}"
cf=/tmp/cf_$id
git -C /repo worktree remove --force $cf 2>/dev/null; rm -rf $cf
git -C /repo worktree add --detach $cf HEAD -q || exit 2
export CARGO_TARGET_DIR=/tmp/cf_target_$id
cd $cf
git apply "$src/patch.diff" || { echo "CONFIRM $id: patch does not apply"; exit 1; }
suite=$(cargo test --workspace --no-fail-fast --offline 2>&1 | grep -E "^test result" | tr '\n' ' ')
echo "suite with patch: $suite"
echo "$suite" | grep -q -E "FAILED|[1-9][0-9]* failed" && { echo "CONFIRM $id: existing suite FAILS with the patch"; }
feat=$(cargo build --offline -p bio-seq --features translation,extra_codecs,serde 2>&1 | grep -c "^error")
echo "build with features errors: $feat"
demo="$src/demo.rs"
mkdir -p bio-seq/tests; cp "$demo" bio-seq/tests/seed_demo.rs
with=$(cargo test -p bio-seq --offline --features translation,extra_codecs,serde --test seed_demo 2>&1 | grep -E "^test result" | tr '\n' ' ')
git apply -R "$src/patch.diff"
without=$(cargo test -p bio-seq --offline --features translation,extra_codecs,serde --test seed_demo 2>&1 | grep -E "^test result" | tr '\n' ' ')
echo "demo with patch:    $with"
echo "demo without patch: $without"
cd /; git -C /repo worktree remove --force $cf; rm -rf /tmp/cf_target_$id
