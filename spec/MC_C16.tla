------------------------------- MODULE MC_C16 -------------------------------
(* C16: the literal macros.  The macro crate's hand-written bit lists equal  *)
(* the packed runtime parse for every symbol and every short literal; the    *)
(* word count is ceil(bits / 64); a literal compiles iff it stays inside the *)
(* macro's ASCII alphabet.                                                   *)
EXTENDS MCBase
CONSTANTS MaxLen

Checked(A, P) == A /\ Assert(P, "a literal-macro law fails on the specification")

Alpha(macro) == IF macro = "dna" THEN {chA, chC, chG, chT, chN, 97, 195}
                ELSE {chA, chN, chDash, chX, chY, 97, 195, 46}

LitLaw(macro, t) ==
    LET c == LitCodec(macro) IN
    /\ LitCompiles(macro, t) <=> \A i \in 1 .. Len(t) : t[i] \in LitAlphabet(macro)
    /\ LitCompiles(macro, t) =>
          /\ M_LitBits(macro, t) = Pack(LitValue(macro, t), W(c))        \* the bit lists are the packed symbols
          /\ Len(LitValue(macro, t)) = Len(t)
          /\ M_LitWords(macro, t) = WordsFor(Len(t) * W(c))
          /\ LitAgreesWithParse(macro, t)
    /\ ParseRes(c, t).ok => LitCompiles(macro, t)                         \* everything the runtime accepts compiles

\* observers only: one step from the initial state covers everything
Fresh == "init" \in DOMAIN out
MCStep ==
    \/ \E macro \in {"dna", "iupac"} : \E t \in SeqsUpTo(Alpha(macro), MaxLen) :
          \/ Checked(LitVerdict(macro, t), LitLaw(macro, t))
          \/ (LitCompiles(macro, t) /\ Checked(LitProg(macro, t), out'.v.len = Len(t)))
    \/ \E t \in SeqsUpTo({chA, chT}, 3) : \E st \in {64, 128} :
          Len(t) >= 1 /\ Checked(KmerLit(t, st), BitsOfLimbs(out'.kv.limbs) = KWord(LitValue("dna", t), 2, st))
MCNext == Fresh /\ MCStep
MCSpec == Init /\ [][MCNext]_vars

\* every symbol of each macro alphabet, one by one
ASSUME \A ch \in DnaLitAlphabet : M_DnaLitChar(ch) = BitsOf(FromAscii("dna", ch), 2)
ASSUME \A ch \in IupacLitAlphabet \ {chX} : M_IupacLitChar(ch) = BitsOf(FromAscii("iupac", ch), 4)
ASSUME M_IupacLitChar(chX) = BitsOf(0, 4)
=============================================================================
