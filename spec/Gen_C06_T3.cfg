SPECIFICATION GSpec
CONSTANTS
    NR = 2
    NK = 1
    NT = 1
    NI = 1
    Depth = 3
    GenCodecs = {"dna", "amino"}
    SeedSel = "few"
INVARIANT Emit
CHECK_DEADLOCK FALSE
