------------------------------- MODULE MC_C09 -------------------------------
(* C09: the k-mer word under rotate / push / reverse / complement steps.     *)
(* Mechanism level: every operation on the S-bit storage word refines the    *)
(* list operation and leaves the bits at and above K*w zero.                 *)
EXTENDS MCBase
CONSTANTS MaxK

Checked(A, P) == A /\ Assert(P, "a k-mer operation law fails on the specification")

\* codecs by width, two or four symbols each
Syms(c) == IF c = "dna" THEN {0, 1, 2, 3} ELSE {Items(c)[1].code, Items(c)[Len(Items(c))].code}
Cods == {"dna", "iupac", "amino", "text", "degen", "miupac"}

Word(kv) == KWord(kv.p, W(kv.c), kv.st)
Canon(word, K, w) == \A i \in (K * w + 1) .. Len(word) : word[i] = 0

N32(n) == <<n \div 65536, n % 65536>>
RotCounts(K) == (0 .. 2 * K + 1) \cup {65536 + 1, 70000}

OpLaw(kv, op, arg, kv2) ==
    LET w == W(kv.c)  K == kv.k  old == Word(kv)  new == Word(kv2)
    IN  /\ Canon(new, K, w)
        /\ kv2.k = K /\ kv2.st = kv.st /\ kv2.c = kv.c
        /\ CASE op = "rotl" -> new = M_KRotL(old, K, w, arg) /\ kv2.p = RotL(kv.p, arg % K)
             [] op = "rotr" -> new = M_KRotR(old, K, w, arg) /\ kv2.p = RotR(kv.p, arg % K)
             [] op = "pushr" -> new = M_KPushR(old, K, w, arg) /\ kv2.p = Tail(kv.p) \o <<arg>>
             [] op = "pushl" -> new = M_KPushL(old, K, w, arg) /\ kv2.p = <<arg>> \o SubSeq(kv.p, 1, K - 1)
             [] op = "rev" -> /\ new = M_KRev(old, K, w) /\ kv2.p = RevSeq(kv.p)
                              \* the 2-bit block trick alone is right only for w = 2
                              /\ (w = 2 => M_KRev2(old, K, w) = new)
             [] op = "comp" -> new = M_KComp(old, K) /\ kv2.p = CompSeq("dna", kv.p)
             [] op = "revcomp" -> /\ new = M_KRev(M_KComp(old, K), K, 2)
                                  /\ kv2.p = RevCompSeq("dna", kv.p)
                                  /\ RevCompSeq("dna", kv2.p) = kv.p                 \* involution
                                  \* canonical form: min(k, rc k) is the same from either side
                                  /\ (IF Colex(kv.p, kv2.p) <= 0 THEN kv.p ELSE kv2.p)
                                       = (IF Colex(kv2.p, kv.p) <= 0 THEN kv2.p ELSE kv.p)

Step(op, arg32, arg) ==
    /\ kreg[0].c # "none"
    /\ Checked(KOp(1, 0, op, IF op \in {"rotl", "rotr"} THEN arg32 ELSE arg),
               OpLaw(kreg[0], op, arg, kreg'[1]))

MCNext ==
    \/ \E c \in Cods : \E K \in 1 .. MaxK : \E p \in SeqsOfLen(Syms(c), K) : \E st \in {64, 128} :
          K * W(c) <= st /\ KStore(0, [c |-> c, k |-> K, st |-> st, p |-> p])
    \* boundary sizes: a full 64-bit and a full 128-bit DNA word, one symbol short of full
    \/ \E K \in {31, 32} : KStore(0, [c |-> "dna", k |-> K, st |-> 64, p |-> [i \in 1 .. K |-> (i * 7) % 4]])
    \/ \E K \in {63, 64} : KStore(0, [c |-> "dna", k |-> K, st |-> 128, p |-> [i \in 1 .. K |-> (i * 5 + 1) % 4]])
    \/ /\ kreg[0].c # "none"
       /\ \/ \E n \in RotCounts(kreg[0].k) : Step("rotl", N32(n), n) \/ Step("rotr", N32(n), n)
          \/ \E x \in Syms(kreg[0].c) : Step("pushl", <<>>, x) \/ Step("pushr", <<>>, x)
          \/ (kreg[0].st = 64 /\ Step("rev", <<>>, 0))
          \/ (kreg[0].c = "dna" /\ kreg[0].st = 64 /\ (Step("comp", <<>>, 0) \/ Step("revcomp", <<>>, 0)))
MCSpec == Init /\ [][MCNext]_vars
OnlySource == kreg[1].c = "none"
AllCanonical == \A k \in KRegIds : KCanonical(kreg[k])
=============================================================================
