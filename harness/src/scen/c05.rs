//! C05: the codec tables, enumerated completely: all 256 byte values as ASCII
//! input and as bit patterns, every symbol's character / code / complement / mask.
use crate::cx::Cx;
use crate::drv::Drv;
use bio_seq::prelude::*;
use serde_json::json;
use std::panic::{catch_unwind, AssertUnwindSafe};

fn code_or<A: Cx>(f: impl FnOnce() -> A) -> i64 {
    catch_unwind(AssertUnwindSafe(|| f().to_bits() as i64)).unwrap_or(-2)
}

pub fn run<A: Cx>(d: &mut Drv<A>) {
    for l in cells::<A>() {
        d.log_line(l);
    }
}

/// the complete table dump of one codec (no register state involved)
pub fn cells<A: Cx>() -> Vec<String> {
    let mut lines: Vec<String> = Vec::new();
    for b in 0..=255u8 {
        let tfb = A::try_from_bits(b);
        let tfa = A::try_from_ascii(b);
        let tfb_c = tfb.map_or(-1, |x| x.to_bits() as i64);
        let tfa_c = tfa.map_or(-1, |x| x.to_bits() as i64);
        // the unchecked decoders are only specified where the fallible ones succeed
        let ufb = if tfb.is_some() { code_or(|| A::unsafe_from_bits(b)) } else { -3 };
        let ufa = if tfa.is_some() { code_or(|| A::unsafe_from_ascii(b)) } else { -3 };
        // b as the canonical code of a symbol
        let is_sym = tfb.map_or(false, |x| x.to_bits() == b);
        let (mut ch, mut bits, mut comp, mut mask, mut unmask) = (-3i64, -3i64, -3i64, -3i64, -3i64);
        if is_sym {
            let x = tfb.unwrap();
            ch = x.to_char() as u32 as i64;
            bits = x.to_bits() as i64;
            if let Some(c) = catch_unwind(AssertUnwindSafe(|| A::sym_comp(x))).unwrap_or(None) {
                comp = c.to_bits() as i64;
            } else if matches!(A::NAME, "dna" | "iupac" | "mdna" | "miupac" | "degen" | "x3") {
                comp = -2;
            }
            // masked DNA: the documentation speaks about A,C,G,T,N (toggle) and gap/pad (fixed)
            let spoken = A::NAME == "miupac" || (A::NAME == "mdna" && b"ACGTNacgtn-.".contains(&(ch as u8)));
            if spoken {
                mask = catch_unwind(AssertUnwindSafe(|| A::sym_mask(x))).unwrap_or(None).map_or(-2, |c| c.to_bits() as i64);
                unmask = catch_unwind(AssertUnwindSafe(|| A::sym_unmask(x))).unwrap_or(None).map_or(-2, |c| c.to_bits() as i64);
            }
        }
        let obs = json!({"tfb": tfb_c, "ufb": ufb, "tfa": tfa_c, "ufa": ufa, "ch": ch, "bits": bits,
                         "comp": comp, "mask": mask, "unmask": unmask});
        let op = json!({"op": "cell", "c": A::NAME, "b": b});
        lines.push(crate::world::merge(&op, obs).to_string());
    }
    let mut items: Vec<u64> = A::items().map(|x| x.to_bits() as u64).collect();
    items.sort();
    let op = json!({"op": "codecinfo", "c": A::NAME});
    lines.push(crate::world::merge(&op, json!({"w": A::BITS, "items": items})).to_string());
    lines
}
