//! Operations that exist only for particular codecs: IUPAC `contains`,
//! cross-codec conversion, the standard translation table, static arrays.
use crate::cx::Cx;
use crate::kd::{self, StX};
use crate::world::{gbytes, gs, gu, view, World};
use bio_seq::codec::text;
use bio_seq::prelude::*;
use bio_seq::translation::{PartialTranslationTable, TranslationError, TranslationTable, STANDARD};
use bitvec::prelude::*;
use core::marker::PhantomData;
use serde_json::{json, Value};
use std::any::Any;

fn tr_err_kind<X: Codec, Y: Codec>(e: &TranslationError<X, Y>) -> &'static str {
    match e {
        TranslationError::AmbiguousCodon(_) => "ambiguous",
        TranslationError::AmbiguousTranslation(_) => "ambiguous",
        TranslationError::InvalidCodon(_) => "invalid",
        TranslationError::InvalidAmino(_) => "invalidamino",
    }
}

/// a `SeqArray` with the content of `s` (documented layout: symbol i at bits [i*BITS, (i+1)*BITS))
fn mk_arr<A: Cx, const N: usize, const W: usize>(s: &SeqSlice<A>) -> SeqArray<A, N, W> {
    assert_eq!(s.len(), N, "harness: array length");
    let mut words = [0usize; W];
    for (i, x) in s.iter().enumerate() {
        let code = x.to_bits() as usize;
        for b in 0..A::BITS as usize {
            if (code >> b) & 1 == 1 {
                let pos = i * A::BITS as usize + b;
                words[pos / 64] |= 1usize << (pos % 64);
            }
        }
    }
    SeqArray { _p: PhantomData, ba: BitArray::<[usize; W], Lsb0>::new(words) }
}

pub const DNA_ARR_LENS: [usize; 12] = [1, 2, 3, 5, 8, 16, 31, 32, 33, 64, 65, 97];
pub const IUPAC_ARR_LENS: [usize; 10] = [1, 2, 3, 8, 15, 16, 17, 32, 33, 49];

macro_rules! with_dna_arr {
    ($s:expr, $arr:ident => $body:expr) => {
        match $s.len() {
            1 => { let $arr = mk_arr::<Dna, 1, 1>($s); $body }
            2 => { let $arr = mk_arr::<Dna, 2, 1>($s); $body }
            3 => { let $arr = mk_arr::<Dna, 3, 1>($s); $body }
            5 => { let $arr = mk_arr::<Dna, 5, 1>($s); $body }
            8 => { let $arr = mk_arr::<Dna, 8, 1>($s); $body }
            16 => { let $arr = mk_arr::<Dna, 16, 1>($s); $body }
            31 => { let $arr = mk_arr::<Dna, 31, 1>($s); $body }
            32 => { let $arr = mk_arr::<Dna, 32, 1>($s); $body }
            33 => { let $arr = mk_arr::<Dna, 33, 2>($s); $body }
            64 => { let $arr = mk_arr::<Dna, 64, 2>($s); $body }
            65 => { let $arr = mk_arr::<Dna, 65, 3>($s); $body }
            97 => { let $arr = mk_arr::<Dna, 97, 4>($s); $body }
            n => panic!("harness: no Dna SeqArray of length {n}"),
        }
    };
}

macro_rules! with_iupac_arr {
    ($s:expr, $arr:ident => $body:expr) => {
        match $s.len() {
            1 => { let $arr = mk_arr::<Iupac, 1, 1>($s); $body }
            2 => { let $arr = mk_arr::<Iupac, 2, 1>($s); $body }
            3 => { let $arr = mk_arr::<Iupac, 3, 1>($s); $body }
            8 => { let $arr = mk_arr::<Iupac, 8, 1>($s); $body }
            15 => { let $arr = mk_arr::<Iupac, 15, 1>($s); $body }
            16 => { let $arr = mk_arr::<Iupac, 16, 1>($s); $body }
            17 => { let $arr = mk_arr::<Iupac, 17, 2>($s); $body }
            32 => { let $arr = mk_arr::<Iupac, 32, 2>($s); $body }
            33 => { let $arr = mk_arr::<Iupac, 33, 3>($s); $body }
            49 => { let $arr = mk_arr::<Iupac, 49, 4>($s); $body }
            n => panic!("harness: no Iupac SeqArray of length {n}"),
        }
    };
}

/// `Kmer<A, K, S> == SeqArray<A, K, 1>` (by value and by reference)
fn kmer_eq_arr<A: Cx, const K: usize, S: StX>(word: u128, s: &SeqSlice<A>) -> Value {
    let k: Kmer<A, K, S> = Kmer { _p: PhantomData, bs: S::from_u128(word) };
    let arr = mk_arr::<A, K, 1>(s);
    let e1 = k == arr;
    let n1 = k != arr;
    let e2 = k == &arr;
    let n2 = k != &arr;
    if e1 != e2 || n1 != n2 {
        return json!({"eq": "inconsistent", "ne": "inconsistent"});
    }
    json!({"eq": e1, "ne": n1})
}

pub const KARR_LENS: [usize; 8] = [1, 2, 3, 5, 8, 15, 16, 32];

fn kmer_eq_arr_dispatch<A: Cx>(k: usize, st: &str, word: u128, s: &SeqSlice<A>) -> Value {
    assert!(k * A::BITS as usize <= 64 && s.len() == k, "harness: k-mer/array shapes");
    macro_rules! go {
        ($K:literal) => {
            match st {
                "usize" => kmer_eq_arr::<A, $K, usize>(word, s),
                "u64" => kmer_eq_arr::<A, $K, u64>(word, s),
                "u128" => kmer_eq_arr::<A, $K, u128>(word, s),
                o => panic!("harness: storage {o}"),
            }
        };
    }
    match k {
        1 => go!(1),
        2 => go!(2),
        3 => go!(3),
        5 => go!(5),
        8 => go!(8),
        15 => go!(15),
        16 => go!(16),
        32 => go!(32),
        n => panic!("harness: no k-mer/array pairing for K={n}"),
    }
}

pub fn kmer_eq_arr_op<A: Cx>(w: &World<A>, op: &Value) -> Value {
    let x = &op["x"];
    let a = w.kregs[gu(x, "r")].unwrap();
    let st = w.kst[gu(x, "r")];
    w.with_src_pub(&op["y"]["src"], &mut |s| kmer_eq_arr_dispatch::<A>(a.k, st, a.word, s))
}

fn dna_special(w: &mut World<Dna>, op: &Value) -> Value {
    match gs(op, "op") {
        "convert" => {
            let to = gs(op, "to");
            let via = gs(op, "via");
            w.with_src_pub(&op["src"], &mut |s| match (to, via) {
                ("iupac", "slice") => view(&Seq::<Iupac>::from(s)),
                ("text", "slice") => view(&Seq::<text::Dna>::from(s)),
                ("dna", "slice") => view(&Seq::<Dna>::from(s)),
                ("iupac", "arrref") => with_dna_arr!(s, arr => view(&Seq::<Iupac>::from(&arr))),
                ("text", "arrref") => with_dna_arr!(s, arr => view(&Seq::<text::Dna>::from(&arr))),
                ("dna", "arrref") => with_dna_arr!(s, arr => view(&Seq::<Dna>::from(&arr))),
                ("iupac", "arr") => with_dna_arr!(s, arr => view(&Seq::<Iupac>::from(arr))),
                ("text", "arr") => with_dna_arr!(s, arr => view(&Seq::<text::Dna>::from(arr))),
                ("dna", "arr") => with_dna_arr!(s, arr => view(&Seq::<Dna>::from(arr))),
                ("iupac", "sym") => view(&s.iter().map(Iupac::from).collect::<Seq<Iupac>>()),
                ("text", "sym") => view(&s.iter().map(text::Dna::from).collect::<Seq<text::Dna>>()),
                o => panic!("harness: convert {o:?}"),
            })
        }
        "toamino" => w.with_src_pub(&op["src"], &mut |s| {
            let a: Amino = STANDARD.to_amino(s);
            json!({"ok": true, "aa": a.to_bits()})
        }),
        "textbase" => {
            let b = gu(op, "byte") as u8;
            let t = text::Dna::unsafe_from_bits(b);
            match Dna::try_from(t) {
                Ok(d) => json!({"ok": true, "code": d.to_bits()}),
                Err(_) => json!({"ok": false}),
            }
        }
        o => panic!("harness: op {o} is not available for dna"),
    }
}

fn iupac_special(w: &mut World<Iupac>, op: &Value) -> Value {
    match gs(op, "op") {
        "contains" => {
            let x = &op["x"];
            let kind = gs(x, "kind");
            w.with_src_pub(&op["y"], &mut |y| {
                let r = match kind {
                    "seq" => w.regs[gu(&x["src"], "r")].as_ref().unwrap().contains(y),
                    "slice" => w.with_src_pub(&x["src"], &mut |xs| xs.contains(y)),
                    "arr" => w.with_src_pub(&x["src"], &mut |xs| with_iupac_arr!(xs, arr => arr.contains(y))),
                    o => panic!("harness: contains receiver {o}"),
                };
                json!({"res": r})
            })
        }
        "trytoamino" => w.with_src_pub(&op["src"], &mut |s| match STANDARD.try_to_amino(s) {
            Ok(a) => json!({"k": "ok", "aa": a.to_bits()}),
            Err(e) => json!({"k": tr_err_kind(&e)}),
        }),
        "trytocodon" => {
            let aa = crate::world::sym::<Amino>(gu(op, "aa") as u8);
            let r: Result<Seq<Iupac>, _> = STANDARD.try_to_codon(aa);
            match r {
                Ok(c) => {
                    // "and that codon translates back to it"
                    let back = STANDARD.try_to_amino(&c).ok().map(|a| a.to_bits());
                    if back != Some(aa.to_bits()) {
                        return json!({"k": "ok", "codon": [], "back": back});
                    }
                    json!({"k": "ok", "codon": c.iter().map(|x| x.to_bits()).collect::<Vec<u8>>()})
                }
                Err(e) => json!({"k": tr_err_kind(&e)}),
            }
        }
        o => panic!("harness: op {o} is not available for iupac"),
    }
}

pub fn exec_special<A: Cx>(w: &mut World<A>, op: &Value) -> Value {
    let any: &mut dyn Any = w;
    if A::NAME == "dna" {
        dna_special(any.downcast_mut::<World<Dna>>().unwrap(), op)
    } else if A::NAME == "iupac" {
        iupac_special(any.downcast_mut::<World<Iupac>>().unwrap(), op)
    } else {
        panic!("harness: op {} is not available for {}", gs(op, "op"), A::NAME)
    }
}

#[allow(dead_code)]
fn _unused(_: &[u8]) {
    let _ = gbytes;
    let _ = kd::KS;
}
