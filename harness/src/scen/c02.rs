//! C02: equality and hashing depend only on content -- every representation
//! (owned, borrowed slice at any offset, static literal, k-mer on every storage,
//! display text), every PartialEq pairing that exists, both directions.
use crate::cx::Cx;
use crate::drv::{boundary_lens, sl, whole, Drv};
use crate::special::KARR_LENS;
use serde_json::{json, Value};

fn opnd(kind: &str, src: Value) -> Value {
    json!({"kind": kind, "src": src})
}
fn kop(r: usize) -> Value {
    json!({"kind": "kmer", "r": r})
}

/// variants of content x: equal, one symbol changed (first / last / random),
/// proper prefix, proper suffix, empty, x + one symbol
fn variants<A: Cx>(d: &mut Drv<A>, x: &[u8]) -> Vec<Vec<u8>> {
    let n = x.len();
    let mut v = vec![x.to_vec()];
    let codes = d.codes();
    let mut change = |d: &mut Drv<A>, pos: usize| {
        let mut y = x.to_vec();
        loop {
            let c = *d.rng.pick(&codes);
            if c != y[pos] {
                y[pos] = c;
                break;
            }
        }
        y
    };
    if n > 0 {
        v.push(change(d, 0));
        v.push(change(d, n - 1));
        let p = d.rng.below(n);
        v.push(change(d, p));
        v.push(x[..n - 1].to_vec());
        v.push(x[1..].to_vec());
        v.push(Vec::new());
    }
    let mut y = x.to_vec();
    y.push(*d.rng.pick(&codes));
    v.push(y);
    v
}

pub fn run<A: Cx>(d: &mut Drv<A>, scale: usize, all_offsets: bool) {
    let w = A::BITS as usize;
    let mut lens = boundary_lens(w);
    lens.retain(|&n| n <= 2 * 64 / w + 2);
    let noff = 64 / gcd(w, 64);
    for round in 0..scale.max(1) {
        for &n in &lens {
            let x = d.rand_syms(n);
            let vs = variants(d, &x);
            // r1: exactly x, parsed/collected
            d.emit(json!({"op": "fromsyms", "dst": 1, "c": A::NAME, "via": "iter", "syms": x}));
            for (vi, y) in vs.iter().enumerate() {
                // offsets of x in parent r0 and of y in parent r3
                let oa = if all_offsets { (round * 7 + vi * 13 + n) % noff } else { *d.rng.pick(&[0, 1, 31 % noff, noff - 1, noff / 2]) };
                let ob = d.rng.below(noff + 3);
                let mut pa = d.rand_syms(oa);
                pa.extend_from_slice(&x);
                let ta = d.rng.below(4);
                pa.extend(d.rand_syms(ta));
                let mut pb = d.rand_syms(ob);
                pb.extend_from_slice(y);
                let tb = d.rng.below(4);
                pb.extend(d.rand_syms(tb));
                d.emit(json!({"op": "fromsyms", "dst": 0, "c": A::NAME, "via": "vec", "syms": pa}));
                d.emit(json!({"op": "fromsyms", "dst": 3, "c": A::NAME, "via": "pushes", "syms": pb}));
                d.emit(json!({"op": "fromsyms", "dst": 4, "c": A::NAME, "via": "iter", "syms": y}));
                // r2: x copied out of the offset slice
                d.emit(json!({"op": "toowned", "dst": 2, "src": sl(0, oa, oa + n), "via": "to_owned"}));
                let xs = sl(0, oa, oa + n);
                let ys = sl(3, ob, ob + y.len());
                // every pairing, both directions
                let pairs: Vec<(Value, Value)> = vec![
                    (opnd("seq", whole(1)), opnd("seq", whole(4))),
                    (opnd("seq", whole(2)), opnd("seq", whole(4))),
                    (opnd("seq", whole(1)), opnd("refseq", whole(4))),
                    (opnd("refseq", whole(2)), opnd("seq", whole(4))),
                    (opnd("refseq", whole(1)), opnd("refseq", whole(4))),
                    (opnd("seq", whole(1)), opnd("slice", ys.clone())),
                    (opnd("seq", whole(2)), opnd("refslice", ys.clone())),
                    (opnd("slice", xs.clone()), opnd("seq", whole(4))),
                    (opnd("refslice", xs.clone()), opnd("seq", whole(4))),
                    (opnd("slice", xs.clone()), opnd("slice", ys.clone())),
                    (opnd("refslice", xs.clone()), opnd("slice", ys.clone())),
                    (opnd("refslice", xs.clone()), opnd("refslice", ys.clone())),
                ];
                for (a, b) in &pairs {
                    d.emit(json!({"op": "eq", "x": a, "y": b}));
                }
                // the reverse direction where the mirrored impl exists
                d.emit(json!({"op": "eq", "x": opnd("seq", whole(4)), "y": opnd("seq", whole(2))}));
                d.emit(json!({"op": "eq", "x": opnd("slice", ys.clone()), "y": opnd("seq", whole(1))}));
                d.emit(json!({"op": "eq", "x": opnd("seq", whole(4)), "y": opnd("slice", xs.clone())}));
                d.emit(json!({"op": "eq", "x": opnd("slice", ys.clone()), "y": opnd("slice", xs.clone())}));
                // a value compared with ITSELF (the same object on both sides), in every form
                if vi == 0 {
                    d.emit(json!({"op": "eq", "x": opnd("seq", whole(1)), "y": opnd("seq", whole(1))}));
                    d.emit(json!({"op": "eq", "x": opnd("refseq", whole(2)), "y": opnd("refseq", whole(2))}));
                    d.emit(json!({"op": "eq", "x": opnd("seq", whole(2)), "y": opnd("refslice", whole(2))}));
                    d.emit(json!({"op": "eq", "x": opnd("slice", xs.clone()), "y": opnd("seq", whole(0))}));
                    d.emit(json!({"op": "eq", "x": opnd("slice", whole(0)), "y": opnd("seq", whole(0))}));
                }
                // display text: own and the other's
                let dx: Vec<u8> = x.iter().map(|&c| crate::world::sym::<A>(c).to_char() as u8).collect();
                let dy: Vec<u8> = y.iter().map(|&c| crate::world::sym::<A>(c).to_char() as u8).collect();
                if dx.iter().chain(dy.iter()).all(|b| b.is_ascii()) {
                    d.emit(json!({"op": "eq", "x": opnd("slice", xs.clone()), "y": {"kind": "str", "bytes": dx}}));
                    d.emit(json!({"op": "eq", "x": opnd("slice", xs.clone()), "y": {"kind": "str", "bytes": dy}}));
                    d.emit(json!({"op": "eq", "x": opnd("slice", whole(2)), "y": {"kind": "str", "bytes": dy}}));
                }
                // hashing: every representation of x and of y
                for o in [opnd("seq", whole(1)), opnd("seq", whole(2)), opnd("refseq", whole(2)), opnd("slice", xs.clone()),
                          opnd("refslice", xs.clone()), opnd("seq", whole(4)), opnd("slice", ys.clone())] {
                    d.emit(json!({"op": "hash", "x": o}));
                }
                // owned keys found by borrowed slices
                d.emit(json!({"op": "mapget", "keys": [1, 4], "q": ys.clone()}));
                d.emit(json!({"op": "mapget", "keys": [4, 2], "q": xs.clone()}));
                d.emit(json!({"op": "mapget", "keys": [4, 2], "q": xs.clone(), "via": "refkeys"}));
                d.emit(json!({"op": "mapget", "keys": [1, 4], "q": ys.clone(), "via": "btree"}));
                // two windows of the SAME parent: x and y side by side in one buffer, compared with each
                // other, with shifted windows and with overlapping ones
                if vi % 3 == 0 {
                    let gap = d.rng.below(3);
                    let mut pc = d.rand_syms(oa % 5);
                    let s1 = pc.len();
                    pc.extend_from_slice(&x);
                    pc.extend(d.rand_syms(gap));
                    let s2 = pc.len();
                    pc.extend_from_slice(y);
                    pc.extend(d.rand_syms(2));
                    d.emit(json!({"op": "fromsyms", "dst": 5, "c": A::NAME, "via": "iter", "syms": pc}));
                    let w1 = sl(5, s1, s1 + n);
                    let w2 = sl(5, s2, s2 + y.len());
                    d.emit(json!({"op": "eq", "x": opnd("slice", w1.clone()), "y": opnd("slice", w2.clone())}));
                    d.emit(json!({"op": "eq", "x": opnd("refslice", w2.clone()), "y": opnd("refslice", w1.clone())}));
                    d.emit(json!({"op": "eq", "x": opnd("refslice", w1.clone()), "y": opnd("slice", w1.clone())}));
                    if n >= 1 {
                        // same length, start shifted by one / two symbols inside the same word
                        for sh in [1usize, 2] {
                            d.emit(json!({"op": "eq", "x": opnd("slice", w1.clone()), "y": opnd("slice", sl(5, s1 + sh, s1 + sh + n))}));
                            d.emit(json!({"op": "eq", "x": opnd("refslice", sl(5, s1 + sh, s1 + sh + n)), "y": opnd("slice", w1.clone())}));
                        }
                        d.emit(json!({"op": "hash", "x": opnd("slice", sl(5, s1 + 1, s1 + 1 + n))}));
                    }
                    d.emit(json!({"op": "hash", "x": opnd("slice", w1.clone())}));
                    d.emit(json!({"op": "hash", "x": opnd("refslice", w2.clone())}));
                    d.emit(json!({"op": "mapget", "keys": [5], "q": w1.clone()}));
                }
                // k-mers on every storage that fits
                if n >= 1 && y.len() == n {
                    for (st, k0) in [("usize", 0usize), ("u64", 2), ("u128", 4)] {
                        let fits = n * w <= if st == "u128" { 128 } else { 64 };
                        if !fits || !crate::kd::KS.contains(&n) {
                            continue;
                        }
                        d.emit(json!({"op": "kfrom", "kd": k0, "src": xs.clone(), "k": n, "st": st, "via": "slice"}));
                        d.emit(json!({"op": "kfrom", "kd": k0 + 1, "src": ys.clone(), "k": n, "st": st, "via": "slice"}));
                        d.emit(json!({"op": "eq", "x": kop(k0), "y": kop(k0 + 1)}));
                        d.emit(json!({"op": "eq", "x": kop(k0 + 1), "y": kop(k0)}));
                        d.emit(json!({"op": "eq", "x": kop(k0), "y": opnd("slice", ys.clone())}));
                        d.emit(json!({"op": "eq", "x": kop(k0 + 1), "y": opnd("refslice", xs.clone())}));
                        d.emit(json!({"op": "hash", "x": kop(k0)}));
                        d.emit(json!({"op": "hash", "x": kop(k0 + 1)}));
                        // the same content after a round trip through k-mer operations
                        let ident: Vec<(&str, Value)> = vec![("rotl", json!([0, n as u32 & 0xffff])), ("rotr", json!([0, 0]))];
                        for (t, arg) in ident {
                            d.emit(json!({"op": "kop", "kd": 6, "ks": k0, "t": t, "arg": arg}));
                            d.emit(json!({"op": "eq", "x": kop(6), "y": kop(k0)}));
                            d.emit(json!({"op": "eq", "x": kop(6), "y": opnd("slice", xs.clone())}));
                            d.emit(json!({"op": "hash", "x": kop(6)}));
                        }
                        if st == "usize" {
                            for t in ["rev", "comp", "revcomp"] {
                                if t != "rev" && A::NAME != "dna" {
                                    continue;
                                }
                                d.emit(json!({"op": "kop", "kd": 6, "ks": k0, "t": t, "via": "copy", "arg": 0}));
                                d.emit(json!({"op": "kop", "kd": 7, "ks": 6, "t": t, "via": "copy", "arg": 0}));
                                d.emit(json!({"op": "eq", "x": kop(7), "y": kop(k0)}));
                                d.emit(json!({"op": "eq", "x": kop(7), "y": opnd("refslice", xs.clone())}));
                                d.emit(json!({"op": "hash", "x": kop(7)}));
                                d.emit(json!({"op": "hash", "x": kop(6)}));
                            }
                        }
                        if st == "usize" {
                            d.emit(json!({"op": "eq", "x": kop(k0), "y": opnd("seq", whole(4))}));
                            if dy.iter().all(|b| b.is_ascii()) {
                                d.emit(json!({"op": "eq", "x": kop(k0), "y": {"kind": "str", "bytes": dy}}));
                                d.emit(json!({"op": "eq", "x": kop(k0), "y": {"kind": "str", "bytes": dx}}));
                            }
                        }
                        if KARR_LENS.contains(&n) && n * w <= 64 {
                            d.emit(json!({"op": "eq", "x": kop(k0), "y": opnd("arr", ys.clone())}));
                        }
                    }
                }
                // k-mer vs slice of another length is never equal
                if n >= 1 && y.len() != n && n * w <= 64 && crate::kd::KS.contains(&n) {
                    d.emit(json!({"op": "kfrom", "kd": 0, "src": xs.clone(), "k": n, "st": "usize", "via": "slice"}));
                    d.emit(json!({"op": "eq", "x": kop(0), "y": opnd("slice", ys.clone())}));
                    d.emit(json!({"op": "eq", "x": kop(0), "y": opnd("seq", whole(4))}));
                }
            }
        }
        // static literals against parsed and sliced copies of their text
        for (id, (t, _)) in A::lits().iter().enumerate() {
            let n = t.len();
            d.emit(json!({"op": "lit", "dst": 16, "c": A::NAME, "id": id, "bytes": t.as_bytes()}));
            d.emit(json!({"op": "parse", "dst": 1, "c": A::NAME, "entry": "str", "bytes": t.as_bytes()}));
            let oa = d.rng.below(noff);
            let mut p = d.rand_text(oa);
            p.extend_from_slice(t.as_bytes());
            d.emit(json!({"op": "parse", "dst": 0, "c": A::NAME, "entry": "vec", "bytes": p}));
            let xs = sl(0, oa, oa + n);
            d.emit(json!({"op": "eq", "x": opnd("refslice", whole(16)), "y": opnd("seq", whole(1))}));
            d.emit(json!({"op": "eq", "x": opnd("seq", whole(1)), "y": opnd("refslice", whole(16))}));
            d.emit(json!({"op": "eq", "x": opnd("refslice", whole(16)), "y": opnd("refslice", xs.clone())}));
            d.emit(json!({"op": "eq", "x": opnd("slice", whole(16)), "y": {"kind": "str", "bytes": t.as_bytes()}}));
            d.emit(json!({"op": "hash", "x": opnd("refslice", whole(16))}));
            d.emit(json!({"op": "hash", "x": opnd("slice", xs.clone())}));
            d.emit(json!({"op": "hash", "x": opnd("seq", whole(1))}));
            d.emit(json!({"op": "mapget", "keys": [1], "q": whole(16)}));
            if n >= 1 && n * w <= 64 && crate::kd::KS.contains(&n) {
                d.emit(json!({"op": "kfrom", "kd": 0, "src": whole(16), "k": n, "st": "usize", "via": "slice"}));
                d.emit(json!({"op": "hash", "x": kop(0)}));
                d.emit(json!({"op": "eq", "x": kop(0), "y": opnd("refslice", whole(16))}));
            }
        }
        d.reset();
    }
}

fn gcd(a: usize, b: usize) -> usize {
    if b == 0 { a } else { gcd(b, a % b) }
}

/// Sequences that STORE alternative bit patterns (reachable through a raw image only) against the
/// sequences with the same symbols in their canonical patterns.  The property says they are equal and
/// hash alike; the library compares stored bits.  A known finding (known_findings.json,
/// D12-stored-alt-pattern-equality): every event that the finding explains carries the tag, so that
/// any OTHER deviation is still reported.
pub fn run_alt<A: Cx>(d: &mut Drv<A>) {
    let alts = d.alt_patterns();
    assert!(!alts.is_empty(), "harness: codec has no alternative patterns");
    let all = d.patterns();
    for n in [1usize, 2, 5, 64 / A::BITS as usize + 1] {
        // at least one alternative pattern, the rest anything that decodes
        let mut pats: Vec<u8> = (0..n).map(|_| *d.rng.pick(&all)).collect();
        let p = d.rng.below(n);
        pats[p] = *d.rng.pick(&alts);
        let canon: Vec<u8> = pats.iter().map(|&p| A::try_from_bits(p).unwrap().to_bits()).collect();
        // r1: canonical patterns; r0: the same symbols, stored as given
        d.emit(json!({"op": "fromsyms", "dst": 1, "c": A::NAME, "via": "iter", "syms": canon}));
        let tag = "stored-alt-pattern";
        {
            // (the view of r0 also reports that it is not == to the sequence rebuilt from its symbols)
            let w = A::BITS as usize;
            let nwords = (n * w + 63) / 64;
            let mut words = vec![0u64; nwords];
            for (i, &c) in pats.iter().enumerate() {
                for b in 0..w {
                    if (c >> b) & 1 == 1 {
                        let pos = i * w + b;
                        words[pos / 64] |= 1u64 << (pos % 64);
                    }
                }
            }
            let mut l = Vec::new();
            for x in words {
                for i in 0..4 {
                    l.push((x >> (16 * i)) & 0xffff);
                }
            }
            d.emit(json!({"op": "fromraw", "dst": 0, "c": A::NAME, "n": n, "limbs": l, "tag": tag}));
        }
        // what holds regardless: same text, equal to that text
        d.emit(json!({"op": "str", "src": whole(0), "via": "to_string"}));
        d.emit(json!({"op": "str", "src": whole(1), "via": "to_string"}));
        // what the finding is about
        d.emit(json!({"op": "eq", "x": opnd("seq", whole(0)), "y": opnd("seq", whole(1)), "tag": tag}));
        d.emit(json!({"op": "eq", "x": opnd("slice", whole(1)), "y": opnd("slice", whole(0)), "tag": tag}));
        d.emit(json!({"op": "hash", "x": opnd("seq", whole(1))}));
        d.emit(json!({"op": "hash", "x": opnd("seq", whole(0)), "tag": tag}));
        d.emit(json!({"op": "mapget", "keys": [1], "q": whole(0), "tag": tag}));
        // the canonical one keeps behaving: equal to itself, to its copy, found in the map
        d.emit(json!({"op": "toowned", "dst": 2, "src": whole(1), "via": "to_owned"}));
        d.emit(json!({"op": "eq", "x": opnd("seq", whole(2)), "y": opnd("seq", whole(1))}));
        d.emit(json!({"op": "mapget", "keys": [1], "q": whole(2)}));
    }
}
