//! Per-codec capabilities.  The `Complement` / `ReverseComplement` / `Maskable`
//! traits carry `where Owned: ...` clauses that do not compose under a generic
//! `A: Codec`, so every operation is instantiated per concrete codec by macro.
use bio_seq::codec::{degenerate, masked, text};
use bio_seq::prelude::*;

pub trait Cx: Codec + 'static {
    const NAME: &'static str;
    /// characters this codec's parser accepts (used by drivers only to build inputs;
    /// the oracle for acceptance is the specification, not this list)
    const ALPHABET: &'static [u8];

    // in place on an owned sequence; false = the codec has no such operation
    fn seq_comp(_s: &mut Seq<Self>) -> bool {
        false
    }
    fn seq_revcomp(_s: &mut Seq<Self>) -> bool {
        false
    }
    fn seq_mask(_s: &mut Seq<Self>) -> bool {
        false
    }
    fn seq_unmask(_s: &mut Seq<Self>) -> bool {
        false
    }
    // copying forms on a borrowed slice
    fn sl_to_comp(_s: &SeqSlice<Self>) -> Option<Seq<Self>> {
        None
    }
    fn sl_to_revcomp(_s: &SeqSlice<Self>) -> Option<Seq<Self>> {
        None
    }
    // copying forms on an owned sequence (&Seq receiver)
    fn seq_to_comp(_s: &Seq<Self>) -> Option<Seq<Self>> {
        None
    }
    fn seq_to_revcomp(_s: &Seq<Self>) -> Option<Seq<Self>> {
        None
    }
    fn seq_to_mask(_s: &Seq<Self>) -> Option<Seq<Self>> {
        None
    }
    fn seq_to_unmask(_s: &Seq<Self>) -> Option<Seq<Self>> {
        None
    }
    // symbol level
    fn sym_comp(_x: Self) -> Option<Self> {
        None
    }
    fn sym_mask(_x: Self) -> Option<Self> {
        None
    }
    fn sym_unmask(_x: Self) -> Option<Self> {
        None
    }
    // ordering exists only for codecs that are `Ord`
    fn kcmp(_k: usize, _st: &str, _a: u128, _b: u128) -> Option<i64> {
        None
    }
    fn seqcmp(_a: &Seq<Self>, _b: &Seq<Self>) -> Option<i64> {
        None
    }
    fn kminmax(_s: &SeqSlice<Self>, _k: usize, _which: &str) -> Option<Option<serde_json::Value>> {
        None
    }
    /// compiled static literals of this codec: (text, value)
    fn lits() -> Vec<(&'static str, &'static SeqSlice<Self>)> {
        Vec::new()
    }
}

macro_rules! comp_impl {
    () => {
        fn seq_comp(s: &mut Seq<Self>) -> bool {
            s.comp();
            true
        }
        fn seq_revcomp(s: &mut Seq<Self>) -> bool {
            s.revcomp();
            true
        }
        fn sl_to_comp(s: &SeqSlice<Self>) -> Option<Seq<Self>> {
            Some(s.to_comp())
        }
        fn sl_to_revcomp(s: &SeqSlice<Self>) -> Option<Seq<Self>> {
            Some(s.to_revcomp())
        }
        fn seq_to_comp(s: &Seq<Self>) -> Option<Seq<Self>> {
            Some(s.to_comp())
        }
        fn seq_to_revcomp(s: &Seq<Self>) -> Option<Seq<Self>> {
            Some(s.to_revcomp())
        }
        fn sym_comp(mut x: Self) -> Option<Self> {
            x.comp();
            Some(x)
        }
    };
}

macro_rules! ord_impl {
    () => {
        fn kcmp(k: usize, st: &str, a: u128, b: u128) -> Option<i64> {
            Some(crate::kd::kcmp::<Self>(k, st, a, b))
        }
        fn seqcmp(a: &Seq<Self>, b: &Seq<Self>) -> Option<i64> {
            Some(crate::kd::seqcmp::<Self>(a, b))
        }
        fn kminmax(s: &SeqSlice<Self>, k: usize, which: &str) -> Option<Option<serde_json::Value>> {
            Some(crate::kd::kminmax::<Self>(s, k, which))
        }
    };
}

macro_rules! mask_impl {
    () => {
        fn seq_mask(s: &mut Seq<Self>) -> bool {
            s.mask();
            true
        }
        fn seq_unmask(s: &mut Seq<Self>) -> bool {
            s.unmask();
            true
        }
        fn seq_to_mask(s: &Seq<Self>) -> Option<Seq<Self>> {
            Some(s.to_mask())
        }
        fn seq_to_unmask(s: &Seq<Self>) -> Option<Seq<Self>> {
            Some(s.to_unmask())
        }
        fn sym_mask(mut x: Self) -> Option<Self> {
            x.mask();
            Some(x)
        }
        fn sym_unmask(mut x: Self) -> Option<Self> {
            x.unmask();
            Some(x)
        }
    };
}

impl Cx for Dna {
    const NAME: &'static str = "dna";
    ord_impl!();
    const ALPHABET: &'static [u8] = b"ACGT";
    comp_impl!();
    fn lits() -> Vec<(&'static str, &'static SeqSlice<Self>)> {
        crate::lits::dna_lits()
    }
}

impl Cx for Iupac {
    const NAME: &'static str = "iupac";
    const ALPHABET: &'static [u8] = b"ACGTRYSWKMBDHVN-";
    comp_impl!();
    fn lits() -> Vec<(&'static str, &'static SeqSlice<Self>)> {
        crate::lits::iupac_lits()
    }
}

impl Cx for Amino {
    const NAME: &'static str = "amino";
    const ALPHABET: &'static [u8] = b"ACDEFGHIKLMNPQRSTVWY*";
}

impl Cx for text::Dna {
    const NAME: &'static str = "text";
    ord_impl!();
    const ALPHABET: &'static [u8] = b"ACGTN";
}

impl Cx for masked::Dna {
    const NAME: &'static str = "mdna";
    ord_impl!();
    const ALPHABET: &'static [u8] = b"ACGTacgtNn-.?!";
    comp_impl!();
    mask_impl!();
}

impl Cx for masked::Iupac {
    const NAME: &'static str = "miupac";
    ord_impl!();
    const ALPHABET: &'static [u8] = b"ACGTRYSWKMBDHVN-acgtryswkmbdhvn.";
    comp_impl!();
    mask_impl!();
}

impl Cx for crate::custom::X3 {
    const NAME: &'static str = "x3";
    ord_impl!();
    comp_impl!();
    const ALPHABET: &'static [u8] = b"ACGTN-";
}

impl Cx for crate::custom::X7 {
    const NAME: &'static str = "x7";
    ord_impl!();
    const ALPHABET: &'static [u8] = b"ACGTNW";
}

impl Cx for degenerate::Dna {
    const NAME: &'static str = "degen";
    ord_impl!();
    const ALPHABET: &'static [u8] = b"SW";
    comp_impl!();
}

/// run `$body` with `$A` bound to the codec named `$name`
#[macro_export]
macro_rules! with_codec {
    ($name:expr, $A:ident => $body:expr) => {
        match $name {
            "dna" => {
                type $A = bio_seq::prelude::Dna;
                $body
            }
            "iupac" => {
                type $A = bio_seq::prelude::Iupac;
                $body
            }
            "amino" => {
                type $A = bio_seq::prelude::Amino;
                $body
            }
            "text" => {
                type $A = bio_seq::codec::text::Dna;
                $body
            }
            "mdna" => {
                type $A = bio_seq::codec::masked::Dna;
                $body
            }
            "miupac" => {
                type $A = bio_seq::codec::masked::Iupac;
                $body
            }
            "degen" => {
                type $A = bio_seq::codec::degenerate::Dna;
                $body
            }
            "x3" => {
                type $A = $crate::custom::X3;
                $body
            }
            "x7" => {
                type $A = $crate::custom::X7;
                $body
            }
            other => panic!("unknown codec {other}"),
        }
    };
}

pub const CODECS: [&str; 9] = ["dna", "iupac", "amino", "text", "mdna", "miupac", "degen", "x3", "x7"];
