----------------------------- MODULE WindowLaws -----------------------------
(***************************************************************************)
(* Unbounded proof (TLAPS) of the list-level facts behind C08 and C11, for *)
(* ANY length n, width w >= 1 and alphabet: the overlapping windows of     *)
(* width w are the n-w+1 slices starting at 0, 1, ..., each inside the     *)
(* sequence; the j-th symbol of window i is symbol i+j of the sequence, so *)
(* consecutive windows overlap in w-1 symbols and the first symbols of the *)
(* windows followed by the rest of the last window spell the sequence;     *)
(* there are none when w > n.  Chunk q (0-based) of width w is the slice   *)
(* q*w .. (q+1)*w: chunks are disjoint, consecutive and inside the         *)
(* sequence as long as (q+1)*w <= n.  (How many chunks there are, and      *)
(* that the iterator stops, is the Apalache module ChunksInd.)             *)
(* The k-mers of a sequence are its windows of width K (SeqOps.KmersOf).   *)
(***************************************************************************)
EXTENDS Integers, TLAPS

CONSTANT Sym

NWindows(n, w) == IF w > n THEN 0 ELSE n - w + 1
\* window i (1-based) of width w
Window(s, w, i) == [j \in 1 .. w |-> s[i - 1 + j]]
\* chunk q (0-based) of width w
Chunk(s, w, q) == [j \in 1 .. w |-> s[q * w + j]]

THEOREM WindowsInside ==
    ASSUME NEW n \in Nat, NEW s \in [1 .. n -> Sym], NEW w \in Nat, w >= 1
    PROVE  /\ NWindows(n, w) \in Nat
           /\ (w > n) => NWindows(n, w) = 0
           /\ \A i \in 1 .. NWindows(n, w) :
                 /\ Window(s, w, i) \in [1 .. w -> Sym]
                 /\ \A j \in 1 .. w : i - 1 + j \in 1 .. n /\ Window(s, w, i)[j] = s[i - 1 + j]
  BY DEF NWindows, Window

THEOREM ConsecutiveWindowsOverlap ==
    ASSUME NEW n \in Nat, NEW s \in [1 .. n -> Sym], NEW w \in Nat, w >= 1
    PROVE  \A i \in 1 .. (NWindows(n, w) - 1) : \A j \in 1 .. (w - 1) :
               Window(s, w, i + 1)[j] = Window(s, w, i)[j + 1]
  BY DEF NWindows, Window

\* every symbol of the sequence is seen: as the first symbol of a window, or in the last window
THEOREM WindowsCoverTheSequence ==
    ASSUME NEW n \in Nat, NEW s \in [1 .. n -> Sym], NEW w \in Nat, w >= 1, w <= n
    PROVE  \A p \in 1 .. n :
               IF p <= NWindows(n, w) THEN s[p] = Window(s, w, p)[1]
               ELSE s[p] = Window(s, w, NWindows(n, w))[p - NWindows(n, w) + 1]
  BY DEF NWindows, Window

THEOREM ChunksInsideAndDisjoint ==
    ASSUME NEW n \in Nat, NEW s \in [1 .. n -> Sym], NEW w \in Nat, w >= 1,
           NEW q \in Nat, (q + 1) * w <= n
    PROVE  /\ Chunk(s, w, q) \in [1 .. w -> Sym]
           /\ \A j \in 1 .. w : q * w + j \in 1 .. n /\ Chunk(s, w, q)[j] = s[q * w + j]
           \* the next chunk starts right after this one ends
           /\ (q + 1) * w = q * w + w
<1>1. (q + 1) * w = q * w + w
  OBVIOUS
<1>2. q * w \in Nat
  OBVIOUS
<1>3. \A j \in 1 .. w : q * w + j \in 1 .. n
  BY <1>1, <1>2
<1> QED
  BY <1>1, <1>3 DEF Chunk
=============================================================================
