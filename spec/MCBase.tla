------------------------------- MODULE MCBase -------------------------------
(***************************************************************************)
(* Shared generators for the bounded model-checking configurations:        *)
(* in-bounds range steps, out-of-bounds neighbours, sources over registers.*)
(***************************************************************************)
EXTENDS BioSeq, Mech

\* every in-bounds range step of the seven forms over a sequence of length n
StepsIn(n) ==
    {st \in [f : {"r"}, a : 0 .. n, b : 0 .. n] : st.a <= st.b}
    \cup {st \in [f : {"ri"}, a : 0 .. n, b : 0 .. n] : st.a <= st.b /\ st.b < n}
    \cup {[f |-> "rt", a |-> 0, b |-> b] : b \in 0 .. n}
    \cup {st \in [f : {"rti"}, a : {0}, b : 0 .. n] : st.b < n}
    \cup {[f |-> "rf", a |-> a, b |-> 0] : a \in 0 .. n}
    \cup {[f |-> "full", a |-> 0, b |-> 0]}
    \cup {st \in [f : {"idx"}, a : 0 .. n, b : {0}] : st.a < n}

\* out-of-bounds neighbours just past the end
StepsOut(n) ==
    {[f |-> "r", a |-> a, b |-> n + 1] : a \in 0 .. n}
    \cup {[f |-> "r", a |-> n + 1, b |-> n + 1]}
    \cup {[f |-> "ri", a |-> a, b |-> n] : a \in 0 .. n}
    \cup {[f |-> "rt", a |-> 0, b |-> n + 1], [f |-> "rti", a |-> 0, b |-> n],
          [f |-> "rf", a |-> n + 1, b |-> 0], [f |-> "idx", a |-> n, b |-> 0]}

\* sources over register r: the whole register or one in-bounds step
Sources1(r) ==
    {WholeReg(r)} \cup {[base |-> "reg", r |-> r, path |-> <<st>>] : st \in StepsIn(Len(reg[r].s))}

\* all sequences over alphabet A of length <= n
RECURSIVE SeqsUpTo(_, _)
SeqsUpTo(A, n) ==
    IF n = 0 THEN {<<>>}
    ELSE LET shorter == SeqsUpTo(A, n - 1)
         IN  shorter \cup {Append(s, x) : s \in {t \in shorter : Len(t) = n - 1}, x \in A}

SeqsOfLen(A, n) == {s \in SeqsUpTo(A, n) : Len(s) = n}

\* the view of the machine that matters for state identity (out is an observation)
MCView == <<reg, kreg, treg, itr, feed>>
=============================================================================
