---------------------------- MODULE ColexNumeric ----------------------------
(***************************************************************************)
(* Unbounded proof (TLAPS) of the core of C10: for two equally long lists  *)
(* of digits in base B (B = 2^BITS; digit k is the code of symbol k), the  *)
(* colexicographic comparison "last position most significant" is exactly  *)
(* the numeric comparison of the packed integers  Sum a[k] * B^(k-1).      *)
(* For ANY base B >= 2, ANY length n and ANY digits.  TLC checks the same  *)
(* equivalence on all pairs of k-mers for K <= 3 (MC_C10); this module     *)
(* lifts it to all K and all widths.                                       *)
(*                                                                         *)
(* TLAPS does not unfold RECURSIVE operators, so the three recursions      *)
(* (powers, packed value, comparison from the top) are given by their      *)
(* defining equations over 0 .. n; SeqOps.ColexFrom and Bits.Pack are the  *)
(* same recursions written as operators.                                   *)
(***************************************************************************)
EXTENDS Naturals, NaturalsInduction, TLAPS

CONSTANTS B, n, a, b, P, Va, Vb, Less

ASSUME BaseLen == B \in Nat /\ B >= 2 /\ n \in Nat
ASSUME Digits == a \in [1 .. n -> 0 .. (B - 1)] /\ b \in [1 .. n -> 0 .. (B - 1)]
\* P[k] = B^k
ASSUME Powers == P \in [0 .. n -> Nat] /\ P[0] = 1 /\ \A k \in 1 .. n : P[k] = B * P[k - 1]
\* packed value of the first k digits
ASSUME ValA == Va \in [0 .. n -> Nat] /\ Va[0] = 0 /\ \A k \in 1 .. n : Va[k] = Va[k - 1] + a[k] * P[k - 1]
ASSUME ValB == Vb \in [0 .. n -> Nat] /\ Vb[0] = 0 /\ \A k \in 1 .. n : Vb[k] = Vb[k - 1] + b[k] * P[k - 1]
\* colexicographic "less" on the first k digits: decided at the highest position that differs
ASSUME ColexDef ==
    /\ Less \in [0 .. n -> BOOLEAN]
    /\ Less[0] = FALSE
    /\ \A k \in 1 .. n : Less[k] = (a[k] < b[k] \/ (a[k] = b[k] /\ Less[k - 1]))

LEMMA MulMono == \A x, y, z \in Nat : x <= y => x * z <= y * z
  OBVIOUS

\* the packed value of k digits is below B^k
LEMMA BoundA == \A k \in 0 .. n : Va[k] < P[k]
<1> DEFINE Q(k) == k \in 0 .. n => Va[k] < P[k]
<1>1. Q(0)
  BY Powers, ValA
<1>2. ASSUME NEW k \in Nat, Q(k) PROVE Q(k + 1)
  <2> SUFFICES ASSUME k + 1 \in 0 .. n PROVE Va[k + 1] < P[k + 1]
    OBVIOUS
  <2>1. k \in 0 .. n /\ k + 1 \in 1 .. n
    BY BaseLen
  <2>2. Va[k] < P[k]
    BY <1>2, <2>1
  <2>3. Va[k + 1] = Va[k] + a[k + 1] * P[k] /\ P[k + 1] = B * P[k]
    BY <2>1, ValA, Powers
  <2>4. a[k + 1] \in Nat /\ a[k + 1] + 1 <= B /\ P[k] \in Nat /\ Va[k] \in Nat
    BY <2>1, Digits, Powers, ValA, BaseLen
  <2>5. (a[k + 1] + 1) * P[k] <= B * P[k]
    BY <2>4, MulMono, BaseLen
  <2>6. (a[k + 1] + 1) * P[k] = a[k + 1] * P[k] + P[k]
    BY <2>4
  <2> QED
    BY <2>2, <2>3, <2>4, <2>5, <2>6, BaseLen
<1> HIDE DEF Q
<1>3. \A k \in Nat : Q(k)
  BY <1>1, <1>2, NatInduction
<1> QED
  BY <1>3 DEF Q

LEMMA BoundB == \A k \in 0 .. n : Vb[k] < P[k]
<1> DEFINE Q(k) == k \in 0 .. n => Vb[k] < P[k]
<1>1. Q(0)
  BY Powers, ValB
<1>2. ASSUME NEW k \in Nat, Q(k) PROVE Q(k + 1)
  <2> SUFFICES ASSUME k + 1 \in 0 .. n PROVE Vb[k + 1] < P[k + 1]
    OBVIOUS
  <2>1. k \in 0 .. n /\ k + 1 \in 1 .. n
    BY BaseLen
  <2>2. Vb[k] < P[k]
    BY <1>2, <2>1
  <2>3. Vb[k + 1] = Vb[k] + b[k + 1] * P[k] /\ P[k + 1] = B * P[k]
    BY <2>1, ValB, Powers
  <2>4. b[k + 1] \in Nat /\ b[k + 1] + 1 <= B /\ P[k] \in Nat /\ Vb[k] \in Nat
    BY <2>1, Digits, Powers, ValB, BaseLen
  <2>5. (b[k + 1] + 1) * P[k] <= B * P[k]
    BY <2>4, MulMono, BaseLen
  <2>6. (b[k + 1] + 1) * P[k] = b[k + 1] * P[k] + P[k]
    BY <2>4
  <2> QED
    BY <2>2, <2>3, <2>4, <2>5, <2>6, BaseLen
<1> HIDE DEF Q
<1>3. \A k \in Nat : Q(k)
  BY <1>1, <1>2, NatInduction
<1> QED
  BY <1>3 DEF Q

\* colexicographic order = numeric order, and equal values = equal digits, on every prefix
\* colexicographic order = numeric order, and equal values = equal digits, on every prefix
Agree(k) == /\ Less[k] <=> Va[k] < Vb[k]
            /\ (Va[k] = Vb[k]) <=> (\A i \in 1 .. k : a[i] = b[i])

LEMMA AgreeStep == ASSUME NEW k \in Nat, k + 1 \in 0 .. n, Agree(k) PROVE Agree(k + 1)
<1>1. k \in 0 .. n /\ k + 1 \in 1 .. n
  BY BaseLen
<1>2. /\ Less[k] <=> Va[k] < Vb[k]
      /\ (Va[k] = Vb[k]) <=> (\A i \in 1 .. k : a[i] = b[i])
  BY DEF Agree
<1>3. /\ Va[k + 1] = Va[k] + a[k + 1] * P[k]
      /\ Vb[k + 1] = Vb[k] + b[k + 1] * P[k]
      /\ Less[k + 1] = (a[k + 1] < b[k + 1] \/ (a[k + 1] = b[k + 1] /\ Less[k]))
  BY <1>1, ValA, ValB, ColexDef
<1>3a. /\ Va[k + 1] = Va[k] + a[k + 1] * P[k]
       /\ Vb[k + 1] = Vb[k] + b[k + 1] * P[k]
  BY <1>3
<1>4. /\ a[k + 1] \in Nat /\ b[k + 1] \in Nat /\ P[k] \in Nat
      /\ Va[k] \in Nat /\ Vb[k] \in Nat /\ Va[k] < P[k] /\ Vb[k] < P[k]
  BY <1>1, Digits, Powers, ValA, ValB, BoundA, BoundB, BaseLen
<1>5. a[k + 1] * P[k] \in Nat /\ b[k + 1] * P[k] \in Nat
  BY <1>4
<1>6. CASE a[k + 1] = b[k + 1]
  <2>1. (Va[k + 1] < Vb[k + 1]) <=> (Va[k] < Vb[k])
    BY <1>3, <1>4, <1>5, <1>6
  <2>2. (Va[k + 1] = Vb[k + 1]) <=> (Va[k] = Vb[k])
    BY <1>3, <1>4, <1>5, <1>6
  <2>3. (\A i \in 1 .. (k + 1) : a[i] = b[i]) <=> (\A i \in 1 .. k : a[i] = b[i])
    BY <1>6
  <2>4. Less[k + 1] <=> Less[k]
    BY <1>3, <1>6, <1>4
  <2> QED
    BY <2>1, <2>2, <2>3, <2>4, <1>2 DEF Agree
<1>7. CASE a[k + 1] < b[k + 1]
  <2>1. (a[k + 1] + 1) * P[k] <= b[k + 1] * P[k]
    BY <1>4, <1>7, MulMono
  <2>2. (a[k + 1] + 1) * P[k] = a[k + 1] * P[k] + P[k]
    BY <1>4
  <2>3. Va[k + 1] < Vb[k + 1]
    <3> DEFINE X == a[k + 1] * P[k]
               Y == b[k + 1] * P[k]
    <3>1. X \in Nat /\ Y \in Nat /\ X + P[k] <= Y
      BY <1>5, <2>1, <2>2
    <3>2. Va[k + 1] = Va[k] + X /\ Vb[k + 1] = Vb[k] + Y
      BY <1>3a
    <3> HIDE DEF X, Y
    <3> QED
      BY <3>1, <3>2, <1>4
  <2>4. Less[k + 1]
    BY <1>3, <1>7
  <2>5. Va[k + 1] # Vb[k + 1] /\ Va[k + 1] \in Nat /\ Vb[k + 1] \in Nat
    BY <2>3, <1>3, <1>4, <1>5
  <2>6. ~(\A i \in 1 .. (k + 1) : a[i] = b[i])
    BY <1>7, <1>4
  <2> QED
    BY <2>3, <2>4, <2>5, <2>6 DEF Agree
<1>8. CASE b[k + 1] < a[k + 1]
  <2>1. (b[k + 1] + 1) * P[k] <= a[k + 1] * P[k]
    BY <1>4, <1>8, MulMono
  <2>2. (b[k + 1] + 1) * P[k] = b[k + 1] * P[k] + P[k]
    BY <1>4
  <2>3. Vb[k + 1] < Va[k + 1]
    <3> DEFINE X == a[k + 1] * P[k]
               Y == b[k + 1] * P[k]
    <3>1. X \in Nat /\ Y \in Nat /\ Y + P[k] <= X
      BY <1>5, <2>1, <2>2
    <3>2. Va[k + 1] = Va[k] + X /\ Vb[k + 1] = Vb[k] + Y
      BY <1>3a
    <3> HIDE DEF X, Y
    <3> QED
      BY <3>1, <3>2, <1>4
  <2>4. ~Less[k + 1]
    BY <1>3, <1>8, <1>4
  <2>5. Va[k + 1] # Vb[k + 1] /\ Va[k + 1] \in Nat /\ Vb[k + 1] \in Nat /\ ~(Va[k + 1] < Vb[k + 1])
    BY <2>3, <1>3, <1>4, <1>5
  <2>6. ~(\A i \in 1 .. (k + 1) : a[i] = b[i])
    BY <1>8, <1>4
  <2> QED
    BY <2>3, <2>4, <2>5, <2>6 DEF Agree
<1> QED
  BY <1>4, <1>6, <1>7, <1>8

THEOREM ColexIsNumeric == \A k \in 0 .. n : Agree(k)
<1> DEFINE Q(k) == k \in 0 .. n => Agree(k)
<1>1. Q(0)
  BY ColexDef, ValA, ValB DEF Agree
<1>2. ASSUME NEW k \in Nat, Q(k) PROVE Q(k + 1)
  <2>1. CASE k + 1 \in 0 .. n
    <3>1. k \in 0 .. n
      BY <2>1, BaseLen
    <3>2. Agree(k)
      BY <1>2, <3>1
    <3> QED
      BY <2>1, <3>2, AgreeStep
  <2>2. CASE k + 1 \notin 0 .. n
    BY <2>2
  <2> QED
    BY <2>1, <2>2
<1> HIDE DEF Q
<1>3. \A k \in Nat : Q(k)
  BY <1>1, <1>2, NatInduction
<1>4. \A k \in 0 .. n : k \in Nat
  BY BaseLen
<1> QED
  BY <1>3, <1>4 DEF Q
=============================================================================
