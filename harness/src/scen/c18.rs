//! C18: serialization round trip of sequences with every kind of history
//! (parsed, sliced-and-copied, edited, reversed, spare capacity) and of k-mers.
use crate::cx::Cx;
use crate::drv::{whole, Drv};
use crate::scen::c08::kset;
use serde_json::json;

pub const FORMATS: [&str; 7] = ["json", "bincode", "json_value", "json_reader", "json_slice", "bincode_reader", "json_pretty"];

pub fn run<A: Cx>(d: &mut Drv<A>, scale: usize, all: bool) {
    let w = A::BITS as usize;
    for _ in 0..scale.max(1) {
        // a parent and histories that leave head offsets / spare capacity behind
        let n = d.rng.range(0, 3 * 64 / w + 6);
        let t = d.rand_text(n);
        d.emit(json!({"op": "parse", "dst": 0, "c": A::NAME, "entry": "str", "bytes": t}));
        let cap = d.rng.range(0, 300);
        d.emit(json!({"op": "new", "dst": 1, "c": A::NAME, "via": "withcap", "cap": cap}));
        let k = d.rng.range(0, 12);
        let xs = d.rand_syms(k);
        d.emit(json!({"op": "extend", "dst": 1, "syms": xs}));
        let src = d.rand_src(0);
        d.emit(json!({"op": "toowned", "dst": 2, "src": src, "via": "to_owned"}));
        let src = d.rand_src(0);
        d.emit(json!({"op": "copying", "dst": 3, "src": src, "t": "rev", "via": "slice"}));
        d.emit(json!({"op": "clone", "dst": 4, "r": 0}));
        for _ in 0..3 {
            let m = d.len(4);
            match d.rng.below(4) {
                0 => {
                    let st = d.rand_step(m);
                    d.emit(json!({"op": "remove", "dst": 4, "range": st}));
                }
                1 => {
                    let s = d.rand_src(0);
                    d.emit(json!({"op": "prepend", "dst": 4, "src": s}));
                }
                2 => {
                    let kk = d.rng.range(0, m);
                    d.emit(json!({"op": "truncate", "dst": 4, "n": kk}));
                }
                _ => {
                    d.emit(json!({"op": "inplace", "dst": 4, "t": "rev"}));
                }
            }
        }
        d.emit(json!({"op": "new", "dst": 5, "c": A::NAME, "via": "new", "cap": 0}));
        // values that came in through bitvec's own types (spare capacity, a bit slice at an offset)
        let k = d.rng.range(0, 2 * 64 / w + 3);
        let xs = d.rand_syms(k);
        let via = *d.rng.pick(&["bv", "bvcap", "bs"]);
        let pad = d.rng.range(0, 130);
        d.emit(json!({"op": "fromsyms", "dst": 6, "c": A::NAME, "via": via, "pad": pad, "syms": xs}));
        for fmt in FORMATS {
            d.emit(json!({"op": "serde", "dst": 7, "r": 6, "fmt": fmt}));
        }
        for r in 0..6 {
            for fmt in FORMATS {
                d.emit(json!({"op": "serde", "dst": 8 + (r % 4), "r": r, "fmt": fmt}));
                // the copy is a full citizen: edit it, original untouched
                if d.rng.chance(1, 3) {
                    let x = d.rand_syms(1)[0];
                    d.emit(json!({"op": "push", "dst": 8 + (r % 4), "x": x}));
                    d.obs(whole(r));
                }
            }
        }
        // sequences holding bit patterns that only a raw image can produce: for the 8-bit text codec
        // every byte is a symbol (lower-case / soft-masked bases, IUPAC letters, punctuation)
        if A::NAME == "text" {
            let m = d.rng.range(1, 40);
            let bytes: Vec<u8> = (0..m).map(|_| 32 + d.rng.below(95) as u8).collect();
            let mut limbs: Vec<u64> = Vec::new();
            for ch in bytes.chunks(2) {
                limbs.push(ch[0] as u64 | ((*ch.get(1).unwrap_or(&0) as u64) << 8));
            }
            while limbs.len() % 4 != 0 {
                limbs.push(0);
            }
            d.emit(json!({"op": "fromraw", "dst": 6, "c": "text", "n": m, "limbs": limbs}));
            for fmt in FORMATS {
                d.emit(json!({"op": "serde", "dst": 7, "r": 6, "fmt": fmt}));
            }
        }
        // k-mers of every K and storage
        for st in ["usize", "u64", "u128"] {
            for k in kset::<A>(st, all) {
                let t = d.rand_text(k);
                d.emit(json!({"op": "kparse", "kd": 0, "c": A::NAME, "k": k, "st": st, "bytes": t}));
                for fmt in ["json", "bincode"] {
                    d.emit(json!({"op": "kserde", "ks": 0, "fmt": fmt}));
                }
            }
        }
        d.reset();
    }
}
