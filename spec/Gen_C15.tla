------------------------------- MODULE Gen_C15 -------------------------------
(* Spec -> implementation for C15: every partial map from four codons (lengths  *)
(* 1, 1, 2, 3) to three residues, every forward query (keys and non-keys,        *)
(* presented as a slice at an offset) and every reverse query.  The replayer     *)
(* rebuilds the table for every behaviour, so hash-map iteration orders vary.    *)
EXTENDS MCBase, Json
CONSTANTS GenCodecs

VARIABLE hist
gvars == <<vars, hist>>
Ev(rec) == hist' = Append(hist, rec @@ [obs |-> out'])

Sy(c, i) == Items(c)[i].code
CodonSeq(c) == <<<<Sy(c, 1)>>, <<Sy(c, 2)>>, <<Sy(c, 3), Sy(c, 4)>>, <<Sy(c, 4), Sy(c, 4), Sy(c, 1)>>>>
NonKeys(c) == {<<Sy(c, 3)>>, <<>>, <<Sy(c, 1), Sy(c, 1)>>}
Residues == {AminoCode(chA), AminoCode(chK), AminoCode(chStar)}
NoneV == 99
EntriesOf(c, f) == SelectSeq([i \in 1 .. 4 |-> [k |-> CodonSeq(c)[i], v |-> f[i]]], LAMBDA e : e.v # NoneV)

GInit == Init /\ hist = <<>>

Build ==
    /\ Len(hist) = 0
    /\ \E c \in GenCodecs : \E f \in [1 .. 4 -> Residues \cup {NoneV}] :
          LET es == EntriesOf(c, f) IN
          /\ TableNew(0, c, es)
          /\ Ev([op |-> "tablenew", t |-> 0, c |-> c, entries |-> es])

FoldAll == \E key \in treg[0].pending : Len(hist) = 1 /\ TableFold(0, key) /\ UNCHANGED hist

Query ==
    /\ Len(hist) = 1 /\ TableBuilt(0)
    /\ LET c == treg[0].c IN
       \/ \E aa \in Residues \cup {AminoCode(chW)} :
             TableCodon(0, aa) /\ Ev([op |-> "tablecodon", t |-> 0, aa |-> aa])
Load ==
    /\ Len(hist) = 1 /\ TableBuilt(0)
    /\ LET c == treg[0].c IN
       \E q \in {CodonSeq(c)[i] : i \in 1 .. 4} \cup NonKeys(c) : \E pad \in {0, 5} :
          LET s == [i \in 1 .. pad |-> Sy(c, 2)] \o q \o <<Sy(c, 1)>> IN
          FromSyms(0, c, s) /\ Ev([op |-> "fromsyms", dst |-> 0, c |-> c, via |-> "iter", syms |-> s, pad |-> pad])
Ask ==
    /\ Len(hist) = 2 /\ hist[2].op = "fromsyms"
    /\ LET pad == hist[2].pad
           src == [base |-> "reg", r |-> 0, path |-> <<[f |-> "r", a |-> pad, b |-> Len(reg[0].s) - 1]>>]
       IN  TableAmino(0, src) /\ Ev([op |-> "tableamino", t |-> 0, src |-> src])

GNext == Build \/ FoldAll \/ Query \/ Load \/ Ask
GSpec == GInit /\ [][GNext]_gvars
Emit == ((Len(hist) = 2 /\ hist[2].op = "tablecodon") \/ Len(hist) = 3) => PrintT(<<"REPLAY", ToJson(hist)>>)
\* fold order is part of the state but not of the history: keep one representative per history
FoldView == <<hist, Cardinality(treg[0].pending), reg, out>>
=============================================================================
