SPECIFICATION MCSpec
CONSTANTS
    NR = 1
    NK = 2
    NT = 1
    NI = 1
    MaxK = 3
VIEW MCView
CONSTRAINT OnlySource
INVARIANT AllCanonical
CHECK_DEADLOCK FALSE
