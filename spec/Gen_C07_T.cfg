SPECIFICATION GSpec
CONSTANTS
    NR = 2
    NK = 1
    NT = 1
    NI = 1
    MaxLen = 5
    GenCodecs = {"dna", "iupac", "amino", "text", "mdna", "miupac", "degen"}
    Ops = {"rev", "comp", "revcomp"}
INVARIANT Emit
CHECK_DEADLOCK FALSE
