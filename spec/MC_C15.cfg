SPECIFICATION MCSpec
CONSTANTS
    NR = 2
    NK = 1
    NT = 1
    NI = 1
VIEW MCView
INVARIANT OrderIndependent
INVARIANT Forward
CHECK_DEADLOCK FALSE
