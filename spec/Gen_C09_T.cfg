SPECIFICATION GSpec
CONSTANTS
    NR = 1
    NK = 1
    NT = 1
    NI = 1
    Depth = 3
    GenCodecs = {"dna", "iupac", "amino", "text", "mdna", "miupac", "degen"}
INVARIANT Emit
INVARIANT AllCanonical
CHECK_DEADLOCK FALSE
