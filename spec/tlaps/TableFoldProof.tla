-------------------------- MODULE TableFoldProof --------------------------
(***************************************************************************)
(* Unbounded proof (TLAPS) that the inverse map of a custom codon table    *)
(* does not depend on the order in which the entries are folded (C15).     *)
(*                                                                         *)
(* The algorithm is the one BioSeq.TableFold states (and                   *)
(* CodonTable::from_map implements): walk the forward map in SOME order;   *)
(* the first codon seen for an amino acid is remembered, a second sighting *)
(* erases it for good.  Here for ANY set of codons, ANY set of amino acids *)
(* and ANY forward map m -- TLC checks the same machine on all maps over   *)
(* small sets (MC_C15), this module lifts it to all sizes.                 *)
(*                                                                         *)
(* inv[a] is Absent (a not yet seen), a codon (seen exactly once so far),  *)
(* or Amb (seen more than once).                                           *)
(***************************************************************************)
EXTENDS TLAPS

CONSTANTS Keys, Aminos, m, Absent, Amb
ASSUME MType == m \in [Keys -> Aminos]
ASSUME Fresh == Absent \notin Keys /\ Amb \notin Keys /\ Absent # Amb

VARIABLES pending, inv
vars == <<pending, inv>>

Init == pending = Keys /\ inv = [a \in Aminos |-> Absent]

Fold(k) ==
    /\ k \in pending
    /\ pending' = pending \ {k}
    /\ inv' = [inv EXCEPT ![m[k]] = IF inv[m[k]] = Absent THEN k ELSE Amb]

Next == \E k \in pending : Fold(k)
Spec == Init /\ [][Next]_vars

Seen == Keys \ pending

\* k is the only codon seen so far that maps to a
OnlySeen(k, a) == k \in Seen /\ m[k] = a /\ \A k2 \in Seen : m[k2] = a => k2 = k

Inv ==
    /\ pending \subseteq Keys
    /\ inv \in [Aminos -> Keys \cup {Absent, Amb}]
    /\ \A a \in Aminos :
          /\ (inv[a] = Absent) <=> (\A k \in Seen : m[k] # a)
          /\ \A k \in Keys : (inv[a] = k) <=> OnlySeen(k, a)

\* what the finished table answers is a function of the forward map alone
Unique(k, a) == k \in Keys /\ m[k] = a /\ \A k2 \in Keys : m[k2] = a => k2 = k
Final ==
    pending = {} =>
        \A a \in Aminos :
            /\ (inv[a] = Absent) <=> (\A k \in Keys : m[k] # a)
            /\ \A k \in Keys : (inv[a] = k) <=> Unique(k, a)
            /\ (inv[a] = Amb) <=> (\E k1, k2 \in Keys : k1 # k2 /\ m[k1] = a /\ m[k2] = a)

LEMMA InitInv == Init => Inv
  BY MType, Fresh DEF Init, Inv, Seen, OnlySeen

LEMMA StepInv == Inv /\ [Next]_vars => Inv'
<1> SUFFICES ASSUME Inv, [Next]_vars PROVE Inv'
  OBVIOUS
<1>1. CASE UNCHANGED vars
  BY <1>1 DEF vars, Inv, Seen, OnlySeen
<1>2. CASE Next
  <2>1. PICK k \in pending : Fold(k)
    BY <1>2 DEF Next
  <2>2. k \in Keys /\ m[k] \in Aminos
    BY <2>1, MType DEF Inv
  <2>3. pending' \subseteq Keys
    BY <2>1 DEF Fold, Inv
  <2>4. inv' \in [Aminos -> Keys \cup {Absent, Amb}]
    BY <2>1, <2>2 DEF Fold, Inv
  <2>5. Seen' = Seen \cup {k}
    BY <2>1, <2>2 DEF Fold, Seen, Inv
  <2>6. ASSUME NEW a \in Aminos
        PROVE /\ (inv'[a] = Absent) <=> (\A k1 \in Seen' : m[k1] # a)
              /\ \A k1 \in Keys : (inv'[a] = k1) <=> OnlySeen(k1, a)'
    <3>1. CASE a # m[k]
      <4>1. inv'[a] = inv[a]
        BY <2>1, <3>1 DEF Fold, Inv
      <4>2. \A k1 \in Keys : OnlySeen(k1, a)' <=> OnlySeen(k1, a)
        BY <2>5, <3>1 DEF OnlySeen
      <4> QED
        BY <4>1, <4>2, <2>5, <3>1 DEF Inv
    <3>2. CASE a = m[k]
      <4>1. k \notin Seen
        BY <2>1 DEF Seen
      <4>2. CASE inv[a] = Absent
        <5>1. inv'[a] = k
          BY <2>1, <3>2, <4>2 DEF Fold, Inv
        <5>2. \A k1 \in Seen : m[k1] # a
          BY <4>2 DEF Inv
        <5>3. \A k1 \in Keys : OnlySeen(k1, a)' <=> (k1 = k)
          BY <5>2, <2>5, <3>2, <2>2 DEF OnlySeen
        <5> QED
          BY <5>1, <5>3, <2>5, <3>2, <2>2, Fresh
      <4>3. CASE inv[a] # Absent
        <5>1. inv'[a] = Amb
          BY <2>1, <3>2, <4>3 DEF Fold, Inv
        <5>2. PICK k0 \in Seen : m[k0] = a
          BY <4>3 DEF Inv
        <5>3. k0 # k /\ k0 \in Keys
          BY <5>2, <4>1 DEF Seen
        <5>4. \A k1 \in Keys : ~OnlySeen(k1, a)'
          BY <5>2, <5>3, <2>5, <3>2 DEF OnlySeen
        <5> QED
          BY <5>1, <5>4, <5>2, <2>5, Fresh
      <4> QED
        BY <4>2, <4>3
    <3> QED
      BY <3>1, <3>2
  <2> QED
    BY <2>3, <2>4, <2>6 DEF Inv
<1> QED
  BY <1>1, <1>2

LEMMA InvFinal == Inv => Final
<1> SUFFICES ASSUME Inv, pending = {}, NEW a \in Aminos
             PROVE /\ (inv[a] = Absent) <=> (\A k \in Keys : m[k] # a)
                   /\ \A k \in Keys : (inv[a] = k) <=> Unique(k, a)
                   /\ (inv[a] = Amb) <=> (\E k1, k2 \in Keys : k1 # k2 /\ m[k1] = a /\ m[k2] = a)
  BY DEF Final
<1>1. Seen = Keys
  BY DEF Seen
<1>2. (inv[a] = Absent) <=> (\A k \in Keys : m[k] # a)
  BY <1>1 DEF Inv
<1>3. \A k \in Keys : (inv[a] = k) <=> Unique(k, a)
  BY <1>1 DEF Inv, OnlySeen, Unique
<1>4. inv[a] \in Keys \cup {Absent, Amb}
  BY DEF Inv
<1>5. (inv[a] = Amb) <=> (\E k1, k2 \in Keys : k1 # k2 /\ m[k1] = a /\ m[k2] = a)
  BY <1>2, <1>3, <1>4, Fresh DEF Unique
<1> QED
  BY <1>2, <1>3, <1>5

THEOREM OrderIndependent == Spec => []Final
<1>1. Spec => []Inv
  BY InitInv, StepInv, PTL DEF Spec
<1> QED
  BY <1>1, InvFinal, PTL
=============================================================================
