------------------------------- MODULE MC_C10 -------------------------------
(* C10: colexicographic order by symbol code = numeric order of the packed   *)
(* integer; total, antisymmetric, transitive, consistent with equality.      *)
EXTENDS MCBase
CONSTANTS MaxK

Checked(A, P) == A /\ Assert(P, "an ordering law fails on the specification")

Cods == {"dna", "miupac", "text", "degen"}
Syms(c) == IF c = "dna" THEN {0, 1, 2, 3}
           ELSE IF c = "degen" THEN {0, 1}
           ELSE {Items(c)[1].code, Items(c)[2].code, Items(c)[Len(Items(c))].code}

PairLaw(c, a, b) ==
    LET w == W(c)
        wa == KWord(a, w, 64)  wb == KWord(b, w, 64)
        r == Colex(a, b)
    IN  /\ (r < 0) <=> M_KmerLess(wa, wb)                  \* colex = numeric order of the word
        /\ (r = 0) <=> (a = b)
        /\ (r > 0) <=> M_KmerLess(wb, wa)
        /\ Colex(b, a) = 0 - r                             \* antisymmetry, totality
        /\ (r < 0) <=> M_SeqLess(Pack(a, w), Pack(b, w))   \* owned sequences order the same way
        \* last symbol is the most significant
        /\ (a[Len(a)] < b[Len(b)]) => r < 0

\* the derived bit-vector order (as found) is NOT this order
AsFoundDiffers ==
    \E a \in SeqsOfLen({0, 1, 2, 3}, 2), b \in SeqsOfLen({0, 1, 2, 3}, 2) :
        (Colex(a, b) < 0) # M_SeqLessAsFound(Pack(a, 2), Pack(b, 2))

MCNext ==
    \/ \E c \in Cods : \E K \in 1 .. MaxK : \E a \in SeqsOfLen(Syms(c), K) :
          /\ (reg[1].c = "none" \/ (reg[1].c = c /\ Len(reg[1].s) = K))
          /\ FromSyms(0, c, a)
    \/ \E c \in Cods : \E K \in 1 .. MaxK : \E b \in SeqsOfLen(Syms(c), K) :
          /\ (reg[0].c = "none" \/ (reg[0].c = c /\ Len(reg[0].s) = K))
          /\ FromSyms(1, c, b)
    \/ /\ reg[0].c # "none" /\ reg[0].c = reg[1].c /\ Len(reg[0].s) = Len(reg[1].s)
       /\ Checked(Cmp(reg[0], reg[1]), PairLaw(reg[0].c, reg[0].s, reg[1].s) /\ out'.res = Colex(reg[0].s, reg[1].s))
    \/ /\ reg[0].c = "dna" /\ Len(reg[0].s) >= 1
       /\ \E K \in 1 .. Len(reg[0].s) : \E which \in {"min", "max"} :
             Checked(KMinMax(WholeReg(0), K, which),
                     LET ws == Windows(reg[0].s, K)
                         m == IF which = "min" THEN ColexMin(ws) ELSE ColexMax(ws)
                     IN  /\ \E i \in 1 .. Len(ws) : ws[i] = m
                         /\ \A i \in 1 .. Len(ws) : IF which = "min" THEN Colex(m, ws[i]) <= 0 ELSE Colex(m, ws[i]) >= 0)
MCSpec == Init /\ [][MCNext]_vars

\* transitivity on all triples of short DNA sequences
Transitive ==
    \A a \in SeqsOfLen({0, 1, 2, 3}, 2), b \in SeqsOfLen({0, 1, 2, 3}, 2), c \in SeqsOfLen({0, 1, 2, 3}, 2) :
        (Colex(a, b) <= 0 /\ Colex(b, c) <= 0) => Colex(a, c) <= 0
ASSUME Transitive
ASSUME AsFoundDiffers
=============================================================================
