------------------------------ MODULE SeqOps ------------------------------
(***************************************************************************)
(* Abstract meaning of the sequence operations: a sequence is a list of    *)
(* canonical symbol codes of one codec.  Nothing here mentions bits except *)
(* where a property does (C04 layout, C10 numeric order).                  *)
(***************************************************************************)
EXTENDS Codecs, SequencesExt, FiniteSetsExt

Range1(n) == 1 .. n

(***************************************************************************)
(* Text <-> symbols (C01)                                                  *)
(***************************************************************************)
BadPositions(c, bytes) == {i \in 1 .. Len(bytes) : FromAscii(c, bytes[i]) = NoSym}

\* result of strict parsing: the symbols, or the FIRST offending byte
ParseRes(c, bytes) ==
    LET bad == BadPositions(c, bytes)
    IN  IF bad = {}
        THEN [ok |-> TRUE, syms |-> [i \in 1 .. Len(bytes) |-> FromAscii(c, bytes[i])]]
        ELSE [ok |-> FALSE, byte |-> bytes[Min(bad)]]

Display(c, s) == [i \in 1 .. Len(s) |-> Char(c, s[i])]

\* what any reader of a sequence value can see; canon: the value equals, and hashes like, the
\* sequence rebuilt from its own symbols (content is all there is, C02)
View(c, s) == [len |-> Len(s), syms |-> s, disp |-> Display(c, s), canon |-> TRUE]

\* trimming: strict parsing of the span between the first and last acceptable byte (C19)
TrimRes(c, bytes) ==
    LET good == {i \in 1 .. Len(bytes) : FromAscii(c, bytes[i]) # NoSym}
    IN  IF good = {} THEN [ok |-> TRUE, syms |-> <<>>]
        ELSE ParseRes(c, SubSeq(bytes, Min(good), Max(good)))

(***************************************************************************)
(* Ranges and slice paths (C03).  Positions are 0-based as in the API; a   *)
(* range step is a record [f, a, b] with f one of                          *)
(*   "r" a..b   "ri" a..=b   "rt" ..b   "rti" ..=b   "rf" a..   "full" ..  *)
(*   "idx" [a]                                                             *)
(***************************************************************************)
RangeForms == {"r", "ri", "rt", "rti", "rf", "full", "idx"}

Lo(st, n) == CASE st.f \in {"r", "ri", "rf", "idx"} -> st.a [] OTHER -> 0
Hi(st, n) == CASE st.f = "r" -> st.b
               [] st.f = "ri" -> st.b + 1
               [] st.f = "rt" -> st.b
               [] st.f = "rti" -> st.b + 1
               [] st.f = "rf" -> n
               [] st.f = "full" -> n
               [] st.f = "idx" -> st.a + 1

StepInBounds(st, n) == Lo(st, n) <= Hi(st, n) /\ Hi(st, n) <= n

\* list-level slice: symbols lo .. hi-1 (0-based, half open)
Cut(s, lo, hi) == SubSeq(s, lo + 1, hi)

\* apply a path of range steps; ok = FALSE as soon as one step is out of range
RECURSIVE PathFrom(_, _, _)
PathFrom(s, path, i) ==
    IF i > Len(path) THEN [ok |-> TRUE, s |-> s]
    ELSE IF ~StepInBounds(path[i], Len(s)) THEN [ok |-> FALSE, s |-> <<>>]
    ELSE PathFrom(Cut(s, Lo(path[i], Len(s)), Hi(path[i], Len(s))), path, i + 1)
PathApply(s, path) == PathFrom(s, path, 1)

(***************************************************************************)
(* Edits (C06): the plain-list meaning                                     *)
(***************************************************************************)
Ins(s, i, t) == SubSeq(s, 1, i) \o t \o SubSeq(s, i + 1, Len(s))     \* insert t before position i
Rem(s, lo, hi) == SubSeq(s, 1, lo) \o SubSeq(s, hi + 1, Len(s))      \* remove positions lo..hi-1
Trunc(s, n) == SubSeq(s, 1, Min2(n, Len(s)))

(***************************************************************************)
(* Reverse / complement / masking (C07, C20)                               *)
(***************************************************************************)
RevSeq(s) == Rev(s)
CompSeq(c, s) == [i \in 1 .. Len(s) |-> CompT[c][s[i]]]
RevCompSeq(c, s) == RevSeq(CompSeq(c, s))
MaskSeq(c, s) == [i \in 1 .. Len(s) |-> MaskT[c][s[i]]]
UnmaskSeq(c, s) == [i \in 1 .. Len(s) |-> UnmaskT[c][s[i]]]

(***************************************************************************)
(* IUPAC set algebra (C12) -- stated on SETS, the code is derived          *)
(***************************************************************************)
IupacUnion(x, y) == IupacCode(IupacSet(x) \cup IupacSet(y))
IupacInter(x, y) == IupacCode(IupacSet(x) \cap IupacSet(y))
UnionT == [x \in 0 .. 15 |-> [y \in 0 .. 15 |-> IupacUnion(x, y)]]
InterT == [x \in 0 .. 15 |-> [y \in 0 .. 15 |-> IupacInter(x, y)]]
OrSeq(s, t) == [i \in 1 .. Len(s) |-> UnionT[s[i]][t[i]]]
AndSeq(s, t) == [i \in 1 .. Len(s) |-> InterT[s[i]][t[i]]]
\* pattern p contains q: equal length and every position of q is a subset
ContainsSeq(p, q) ==
    /\ Len(p) = Len(q)
    /\ \A i \in 1 .. Len(p) : IupacSet(q[i]) \subseteq IupacSet(p[i])

(***************************************************************************)
(* Iterators (C11) and k-mer windows (C08)                                 *)
(***************************************************************************)
NWindows(n, w) == IF w > n THEN 0 ELSE n - w + 1
Windows(s, w) == [i \in 1 .. NWindows(Len(s), w) |-> SubSeq(s, i, i + w - 1)]
Chunks(s, w) == [i \in 1 .. (Len(s) \div w) |-> SubSeq(s, (i - 1) * w + 1, i * w)]

(***************************************************************************)
(* Order (C10): colexicographic by symbol code -- last symbol most         *)
(* significant.  Returns -1, 0, 1.                                         *)
(***************************************************************************)
RECURSIVE ColexFrom(_, _, _)
ColexFrom(a, b, i) ==
    IF i = 0 THEN 0
    ELSE IF a[i] < b[i] THEN -1
    ELSE IF a[i] > b[i] THEN 1
    ELSE ColexFrom(a, b, i - 1)
Colex(a, b) == ColexFrom(a, b, Len(a))      \* for Len(a) = Len(b)

\* index (1-based) of the colex-least / greatest element of a non-empty list of
\* equal-length sequences; ties: Iterator::min returns the FIRST minimum,
\* Iterator::max the LAST maximum -- immaterial for content, which is compared
RECURSIVE ColexMinFrom(_, _, _)
ColexMinFrom(l, i, best) ==
    IF i > Len(l) THEN best
    ELSE ColexMinFrom(l, i + 1, IF Colex(l[i], l[best]) < 0 THEN i ELSE best)
ColexMin(l) == l[ColexMinFrom(l, 2, 1)]
RECURSIVE ColexMaxFrom(_, _, _)
ColexMaxFrom(l, i, best) ==
    IF i > Len(l) THEN best
    ELSE ColexMaxFrom(l, i + 1, IF Colex(l[i], l[best]) >= 0 THEN i ELSE best)
ColexMax(l) == l[ColexMaxFrom(l, 2, 1)]

(***************************************************************************)
(* k-mers on the abstract level: K raw patterns; rotations and pushes      *)
(***************************************************************************)
RotL(s, n) == [i \in 1 .. Len(s) |-> s[((i - 1 + n) % Len(s)) + 1]]
RotR(s, n) == [i \in 1 .. Len(s) |-> s[((i - 1 + Len(s) - (n % Len(s))) % Len(s)) + 1]]
PushR(s, x) == Tail(s) \o <<x>>              \* drop the first, append at the end
PushL(s, x) == <<x>> \o SubSeq(s, 1, Len(s) - 1)

DecodeSeq(c, p) == [i \in 1 .. Len(p) |-> Decode(c, p[i])]
=============================================================================
