------------------------------ MODULE MC_GIANT ------------------------------
(* The virtual > 2^32-bit sequence of Giant.tla, tied back to the rest of the  *)
(* specification: on windows of whole words (at the start, astride bit 2^32,   *)
(* at the very end) its symbols are exactly what Bits.Unpack reads out of the  *)
(* stated word image; content 2^32 bits apart differs wherever the drivers     *)
(* probe; path arithmetic on lengths agrees with SeqOps.PathApply on a small   *)
(* concrete sequence.                                                          *)
EXTENDS Giant, TLC

\* word windows (5 words = 320 bits = a whole number of symbols of either width)
WordStarts(c) ==
    LET lastw == (GiantLen(c) \div 64) * W(c) - 5 IN
    {0, 5, 65535, 65540, 67108860, 67108865, lastw - (lastw % 5)}
SymIndexOfWord(c, j0) == IF c = "iupac" THEN j0 * 16 ELSE (j0 \div 5) * 64

ASSUME RefinesBits ==
    \A c \in GiantCodecs : \A j0 \in {j \in WordStarts(c) : c = "iupac" \/ j % 5 = 0} :
        GWindowByBits(c, j0, 5) = GSyms(c, SymIndexOfWord(c, j0), 320 \div W(c))

\* an index that wraps at 32 bits would read symbols 2^32 bits earlier: the content there differs
ASSUME WrapShows ==
    \A c \in GiantCodecs : \A k \in {0, 1, 2, 3, 17, 64, 1000, 4000} :
        GSyms(c, GiantEdge(c) + k, 24) # GSyms(c, k + (IF c = "iupac" THEN 0 ELSE 0), 24)

\* lengths-only path arithmetic agrees with the list-level meaning (on a small stand-in)
Small == [i \in 1 .. 9 |-> i]
SmallPaths == {<<>>, <<[f |-> "r", a |-> 2, b |-> 7]>>, <<[f |-> "rf", a |-> 3, b |-> 0], [f |-> "rti", a |-> 0, b |-> 2]>>,
               <<[f |-> "ri", a |-> 1, b |-> 8], [f |-> "idx", a |-> 7, b |-> 0]>>, <<[f |-> "r", a |-> 2, b |-> 10]>>,
               <<[f |-> "full", a |-> 0, b |-> 0], [f |-> "rt", a |-> 0, b |-> 9], [f |-> "r", a |-> 9, b |-> 9]>>}
ASSUME PathArithmetic ==
    \A p \in SmallPaths :
        LET a == PathApply(Small, p)
            b == GPathFrom(0, 9, p, 1)
        IN  /\ a.ok = b.ok
            /\ a.ok => a.s = SubSeq(Small, b.off + 1, b.off + b.len)

\* the edit algebra on the virtual sequence agrees with the list-level edits on a window at the end
GTail(c, k) == GSyms(c, GiantLen(c) - k, k)
ASSUME EditAlgebra ==
    \A c \in GiantCodecs :
        LET n == GiantLen(c)
            xs == <<1, 2, 3>>
            ins == [t |-> "insert", i |-> n - 4, xs |-> xs]
            rem == [t |-> "remove", a |-> n - 6, b |-> n - 2]
        IN  /\ [k \in 1 .. 11 |-> GEditSym(c, ins, n - 8 + k - 1)] = Ins(GTail(c, 8), 4, xs)
            /\ GEditLen(c, ins) = n + 3
            /\ [k \in 1 .. 4 |-> GEditSym(c, rem, n - 8 + k - 1)] = Rem(GTail(c, 8), 2, 6)
            /\ GEditLen(c, rem) = n - 4

VARIABLE x
Init == x = 0
Next == UNCHANGED x
Spec == Init /\ [][Next]_x
=============================================================================
