------------------------------- MODULE Gen_C07 -------------------------------
(* Spec -> implementation for C07 and C20: every sequence of length <= MaxLen    *)
(* over three symbols per codec, embedded at two pads (one puts a 64-bit word      *)
(* boundary inside it), through every transform the codec has -- copying form on   *)
(* the borrowed window, then the in-place form on the copy (twice).               *)
EXTENDS MCBase, Json
CONSTANTS MaxLen, GenCodecs, Ops

VARIABLE hist
gvars == <<vars, hist>>
Ev(rec) == hist' = Append(hist, rec @@ [obs |-> out'])

Three(c) == IF c = "mdna" THEN {8, 7, 12}                       \* A, a, gap: the documented part
            ELSE {Items(c)[1].code, Items(c)[2].code, Items(c)[Len(Items(c))].code}
Sym(c, i) == Items(c)[((i - 1) % 2) + 1].code
Pads(c) == {0, (64 \div W(c)) - 2}
OpsOf(c) == {t \in Ops : TransformOK(c, t)}

GInit == Init /\ hist = <<>>
Load ==
    /\ Len(hist) = 0
    /\ \E c \in GenCodecs : \E s \in SeqsUpTo(Three(c), MaxLen) : \E pad \in Pads(c) :
          LET full == [i \in 1 .. pad |-> Sym(c, i)] \o s \o <<Sym(c, 1)>> IN
          FromSyms(0, c, full) /\ Ev([op |-> "fromsyms", dst |-> 0, c |-> c, via |-> "iter", syms |-> full, pad |-> pad])
Copy ==
    /\ Len(hist) = 1
    /\ \E t \in OpsOf(reg[0].c) :
          LET src == [base |-> "reg", r |-> 0, path |-> <<[f |-> "r", a |-> hist[1].pad, b |-> Len(reg[0].s) - 1]>>] IN
          Copying(1, src, t) /\ Ev([op |-> "copying", dst |-> 1, src |-> src, t |-> t, via |-> "slice"])
Again ==
    /\ Len(hist) \in {2, 3}
    /\ InPlace(1, hist[2].t) /\ Ev([op |-> "inplace", dst |-> 1, t |-> hist[2].t])
GNext == Load \/ Copy \/ Again
GSpec == GInit /\ [][GNext]_gvars
Emit == (Len(hist) = 4) => PrintT(<<"REPLAY", ToJson(hist)>>)
=============================================================================
