------------------------------- MODULE Giant -------------------------------
(***************************************************************************)
(* Sequences longer than 2^32 bits.                                        *)
(*                                                                         *)
(* "For ANY sequence" includes sequences whose bit positions do not fit    *)
(* 32 bits.  TLC cannot hold a billion symbols, so such a sequence is      *)
(* VIRTUAL here: its content is a function of the position.  The real one  *)
(* is rebuilt from a machine-word image (C04) whose word j is a function   *)
(* of j alone:                                                             *)
(*                                                                         *)
(*     limb0 = j mod 2^16            limb1 = j div 2^16                    *)
(*     limb2 = (3*limb0 + limb1 + 1) mod 2^16                              *)
(*     limb3 = (limb0 + 7*limb1 + 5) mod 2^16                              *)
(*                                                                         *)
(* so the words 2^26 apart (2^32 bits) always differ: an index that wraps  *)
(* at 32 bits reads different symbols.  Codecs used: those in which every  *)
(* bit pattern is a symbol (iupac: 4 bits, miupac: 5 bits -- the latter's  *)
(* symbols straddle words).                                                *)
(*                                                                         *)
(* All arithmetic stays below 2^31 (TLC integers): positions are symbol    *)
(* indices (< 2^30 + 4096), never bit indices.                             *)
(***************************************************************************)
EXTENDS SeqOps

GiantCodecs == {"iupac", "miupac"}

\* symbols of the virtual sequence: just past 2^32 bits, plus room to work in
GiantLen(c) == IF c = "iupac" THEN 1073741824 + 4096 ELSE 858993460 + 4096
\* first symbol index whose bits lie at or beyond bit 2^32
GiantEdge(c) == IF c = "iupac" THEN 1073741824 ELSE 858993460

GWord(j) ==
    LET l0 == j % 65536
        l1 == j \div 65536
    IN  <<l0, l1, (3 * l0 + l1 + 1) % 65536, (l0 + 7 * l1 + 5) % 65536>>

\* bit k (0 .. 63) of word j
GWordBit(j, k) == Bit(GWord(j)[(k \div 16) + 1], k % 16)

\* word index and bit offset of symbol i, without ever forming i*w:
\* 64 symbols of width w are exactly w words
GPos(c, i) ==
    LET w == W(c)
        q == i \div 64
        r == i % 64
    IN  [j |-> w * q + ((r * w) \div 64), o |-> (r * w) % 64]

\* bit t (0-based) of the stream, counted from position p = [j, o]
GBitFrom(p, t) ==
    LET k == p.o + t IN GWordBit(p.j + (k \div 64), k % 64)

RECURSIVE GVal(_, _, _)
GVal(p, t, n) == IF n = 0 THEN 0 ELSE GBitFrom(p, t) + 2 * GVal(p, t + 1, n - 1)

\* canonical code of symbol i (every pattern is a symbol in these codecs)
GSym(c, i) == Decode(c, GVal(GPos(c, i), 0, W(c)))

\* symbols off .. off+n-1 as an ordinary (small) list
GSyms(c, off, n) == [t \in 1 .. n |-> GSym(c, off + t - 1)]

(***************************************************************************)
(* Slice paths on lengths only: offset and length of the selected window   *)
(***************************************************************************)
RECURSIVE GPathFrom(_, _, _, _)
GPathFrom(off, n, path, i) ==
    IF i > Len(path) THEN [ok |-> TRUE, off |-> off, len |-> n]
    ELSE IF ~StepInBounds(path[i], n) THEN [ok |-> FALSE, off |-> 0, len |-> 0]
    ELSE GPathFrom(off + Lo(path[i], n), Hi(path[i], n) - Lo(path[i], n), path, i + 1)
GPath(c, path) == GPathFrom(0, GiantLen(c), path, 1)

(***************************************************************************)
(* What the operations owe, as functions of the request                    *)
(***************************************************************************)
\* positional access: probes are positions within the selected window
GObsRes(c, path, probes, how) ==
    LET p == GPath(c, path)
    IN  IF ~p.ok THEN [panic |-> TRUE]
        ELSE IF how # "get" /\ \E k \in 1 .. Len(probes) : probes[k] >= p.len THEN [panic |-> TRUE]
        ELSE [len |-> p.len,
              empty |-> (p.len = 0),
              syms |-> [k \in 1 .. Len(probes) |-> IF probes[k] < p.len THEN GSym(c, p.off + probes[k]) ELSE -1]]

\* a short window, seen whole
GViewRes(c, path) ==
    LET p == GPath(c, path)
    IN  IF ~p.ok THEN [panic |-> TRUE] ELSE View(c, GSyms(c, p.off, p.len))

\* iterators: the items skip+1 .. skip+take of the run over the selected window
GItCount(kind, n, w) ==
    CASE kind \in {"iter", "rev"} -> n
      [] kind = "windows" -> NWindows(n, w)
      [] kind = "chunks" -> n \div w
GItItem(c, kind, off, n, w, t) ==      \* t-th item, 0-based
    CASE kind = "iter" -> GSym(c, off + t)
      [] kind = "rev" -> GSym(c, off + n - 1 - t)
      [] kind = "windows" -> View(c, GSyms(c, off + t, w))
      [] kind = "chunks" -> View(c, GSyms(c, off + t * w, w))
GItRes(c, path, kind, w, skip, take) ==
    LET p == GPath(c, path)
    IN  IF ~p.ok THEN [panic |-> TRUE]
        ELSE LET total == GItCount(kind, p.len, w)
                 m == IF skip >= total THEN 0 ELSE Min2(take, total - skip)
             IN  [items |-> [t \in 1 .. m |-> GItItem(c, kind, p.off, p.len, w, skip + t - 1)],
                  exhausted |-> (skip + take >= total)]

\* edits of an owned copy of the whole sequence; probes are absolute positions
GEditLen(c, e) ==
    LET n == GiantLen(c) IN
    CASE e.t = "push" -> n + 1
      [] e.t = "extend" -> n + Len(e.xs)
      [] e.t = "append" -> n + Len(e.xs)
      [] e.t = "truncate" -> Min2(e.n, n)
      [] e.t = "insert" -> n + Len(e.xs)
      [] e.t = "remove" -> n - (e.b - e.a)
      [] e.t = "clone" -> n
GEditSym(c, e, i) ==
    LET n == GiantLen(c) IN
    CASE e.t = "push" -> IF i < n THEN GSym(c, i) ELSE e.x
      [] e.t \in {"extend", "append"} -> IF i < n THEN GSym(c, i) ELSE e.xs[i - n + 1]
      [] e.t \in {"truncate", "clone"} -> GSym(c, i)
      [] e.t = "insert" -> IF i < e.i THEN GSym(c, i)
                           ELSE IF i < e.i + Len(e.xs) THEN e.xs[i - e.i + 1]
                           ELSE GSym(c, i - Len(e.xs))
      [] e.t = "remove" -> IF i < e.a THEN GSym(c, i) ELSE GSym(c, i + (e.b - e.a))
GEditRes(c, e, probes) ==
    LET n == GEditLen(c, e)
    IN  [len |-> n, syms |-> [k \in 1 .. Len(probes) |-> IF probes[k] < n THEN GEditSym(c, e, probes[k]) ELSE -1]]

\* integer image of a window of at most 64 bits
GIntRes(c, path) ==
    LET p == GPath(c, path)
    IN  IF ~p.ok THEN [panic |-> TRUE]
        ELSE [ok |-> TRUE, limbs |-> Limbs(Pack(GSyms(c, p.off, p.len), W(c)), 1)]

\* two short windows compared
GEqRes(c, pa, pb) ==
    LET a == GPath(c, pa)
        b == GPath(c, pb)
        e == GSyms(c, a.off, a.len) = GSyms(c, b.off, b.len)
    IN  IF ~a.ok \/ ~b.ok THEN [panic |-> TRUE] ELSE [eq |-> e, ne |-> ~e]

(***************************************************************************)
(* The virtual content IS the packed image of the stated words: checked on *)
(* windows by MC_GIANT (refinement of Bits.Unpack / BitsOfLimbs).          *)
(***************************************************************************)
\* symbols of words j0 .. j0+nw-1 according to Bits, for widths dividing the window
GWindowByBits(c, j0, nw) ==
    LET limbs == [k \in 1 .. (4 * nw) |-> GWord(j0 + ((k - 1) \div 4))[((k - 1) % 4) + 1]]
    IN  DecodeSeq(c, Unpack(BitsOfLimbs(limbs), W(c)))
=============================================================================
