//! C19: cross-codec conversion (DNA -> IUPAC / text, text -> DNA) and trimming.
use crate::cx::Cx;
use crate::drv::{sl, Drv};
use crate::special::DNA_ARR_LENS;
use serde_json::json;

pub fn run_convert<A: Cx>(d: &mut Drv<A>, scale: usize) {
    assert_eq!(A::NAME, "dna");
    for b in 0..=255u32 {
        d.emit(json!({"op": "textbase", "byte": b}));
    }
    for _ in 0..scale.max(1) {
        for &n in DNA_ARR_LENS.iter().chain([0usize, 100, 130].iter()) {
            let o = d.rng.below(33);
            let t = d.rand_syms(o + n + 1);
            d.emit(json!({"op": "fromsyms", "dst": 0, "c": "dna", "via": "iter", "syms": t}));
            for to in ["iupac", "text"] {
                d.emit(json!({"op": "convert", "src": sl(0, o, o + n), "to": to, "via": "slice"}));
                d.emit(json!({"op": "convert", "src": sl(0, o, o + n), "to": to, "via": "sym"}));
                if DNA_ARR_LENS.contains(&n) {
                    d.emit(json!({"op": "convert", "src": sl(0, o, o + n), "to": to, "via": "arrref"}));
                    d.emit(json!({"op": "convert", "src": sl(0, o, o + n), "to": to, "via": "arr"}));
                }
            }
        }
        // static literals
        for (id, (t, _)) in A::lits().iter().enumerate() {
            d.emit(json!({"op": "lit", "dst": 16, "c": "dna", "id": id, "bytes": t.as_bytes()}));
            let src = d.rand_src(16);
            d.emit(json!({"op": "convert", "src": src, "to": "iupac", "via": "slice"}));
            let src = d.rand_src(16);
            d.emit(json!({"op": "convert", "src": src, "to": "text", "via": "slice"}));
        }
        d.reset();
    }
}

/// all strings of length <= maxlen over {two acceptable, two unacceptable bytes}, plus random long ones
pub fn run_trim<A: Cx>(d: &mut Drv<A>, maxlen: usize, nrandom: usize) {
    let good = [A::ALPHABET[0], A::ALPHABET[A::ALPHABET.len() - 1]];
    let bad: [u8; 2] = if A::NAME == "text" { [b'n', b' '] } else { [b'#', b'z'] };
    let alpha = [good[0], good[1], bad[0], bad[1]];
    for len in 0..=maxlen {
        let total = 4usize.pow(len as u32);
        for idx in 0..total {
            let mut x = idx;
            let mut s = Vec::with_capacity(len);
            for _ in 0..len {
                s.push(alpha[x % 4]);
                x /= 4;
            }
            d.emit(json!({"op": "trim", "dst": 0, "c": A::NAME, "bytes": s}));
        }
    }
    // long uniform runs of ONE unacceptable byte at either end (N / X padding of a contig, blank
    // lines, NUL padding), around every power-of-two length, with and without an interior error
    let pads: [u8; 5] = [b'N', b'#', b' ', 0, b'x'];
    for &lead in &[0usize, 1, 7, 8, 15, 16, 31, 32, 33, 63, 64, 65, 127, 128, 129, 200, 255, 256, 257, 512, 1000] {
        let padb = *d.rng.pick(&pads);
        let body = d.rng.range(1, 90);
        let tail = *d.rng.pick(&[0usize, 1, 63, 64, 65, 128, 300]);
        let mut sv: Vec<u8> = vec![padb; lead];
        sv.extend(d.rand_text(body));
        let tb = *d.rng.pick(&pads);
        sv.extend(std::iter::repeat(tb).take(tail));
        d.emit(json!({"op": "trim", "dst": 1, "c": A::NAME, "bytes": sv}));
        if body > 2 {
            sv[lead + body / 2] = b'!' ^ 1;
            d.emit(json!({"op": "trim", "dst": 1, "c": A::NAME, "bytes": sv}));
        }
    }
    for _ in 0..nrandom {
        let lead = d.rng.range(0, 70);
        let body = d.rng.range(0, 140);
        let tail = d.rng.range(0, 70);
        let junk = [b'N', b'n', b' ', b'\n', b'>', b'0', 0x80, 0xff, b'x', b'#'];
        let mut s: Vec<u8> = (0..lead).map(|_| *d.rng.pick(&junk)).collect();
        let mut b = d.rand_text(body);
        if body > 0 && d.rng.chance(1, 3) {
            // interior unacceptable byte: an error, reported as in strict parsing
            let p = d.rng.below(body);
            b[p] = *d.rng.pick(&junk);
        }
        s.extend(b);
        s.extend((0..tail).map(|_| *d.rng.pick(&junk)));
        d.emit(json!({"op": "trim", "dst": 1, "c": A::NAME, "bytes": s}));
    }
}
