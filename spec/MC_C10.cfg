SPECIFICATION MCSpec
CONSTANTS
    NR = 2
    NK = 1
    NT = 1
    NI = 1
    MaxK = 3
VIEW MCView
INVARIANT TypeOK
CHECK_DEADLOCK FALSE
