SPECIFICATION GSpec
CONSTANTS
    NR = 3
    NK = 1
    NT = 1
    NI = 1
    Offsets = {0, 15}
INVARIANT Emit
CHECK_DEADLOCK FALSE
