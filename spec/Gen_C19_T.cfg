SPECIFICATION GSpec
CONSTANTS
    NR = 1
    NK = 1
    NT = 1
    NI = 1
    MaxLen = 7
    GenCodecs = {"dna", "iupac", "amino", "text", "mdna", "miupac", "degen"}
INVARIANT Emit
CHECK_DEADLOCK FALSE
