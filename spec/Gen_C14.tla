------------------------------- MODULE Gen_C14 -------------------------------
(* Spec -> implementation for C14: all 16^3 IUPAC codons at slice offsets      *)
(* (incl. one where the codon straddles a word), wrong lengths, and the         *)
(* reverse translation of all 21 residues.  Gap-containing codons are only      *)
(* required not to panic, so they are not part of the replayed expectations.    *)
EXTENDS MCBase, Json
CONSTANTS Offsets

VARIABLE hist
gvars == <<vars, hist>>
Ev(rec) == hist' = Append(hist, rec @@ [obs |-> out'])

GInit == Init /\ hist = <<>>
Load ==
    /\ Len(hist) = 0
    /\ \E off \in Offsets : \E x \in 1 .. 15, y \in 1 .. 15, z \in 1 .. 15 :
          LET s == [i \in 1 .. off |-> ((i * 7) % 15) + 1] \o <<x, y, z>> \o <<15, 8>> IN
          FromSyms(0, "iupac", s) /\ Ev([op |-> "fromsyms", dst |-> 0, c |-> "iupac", via |-> "iter", syms |-> s, off |-> off])
Ask ==
    /\ Len(hist) = 1 /\ hist[1].op = "fromsyms"
    /\ \E n \in {3, 0, 1, 2, 4, 5} :
          (n = 3 \/ (hist[1].syms[hist[1].off + 1] = 8 /\ hist[1].syms[hist[1].off + 2] = 4)) /\
          LET src == [base |-> "reg", r |-> 0, path |-> <<[f |-> "r", a |-> hist[1].off, b |-> hist[1].off + n]>>] IN
          TryToAmino(src, TryToAminoRes(src)) /\ Ev([op |-> "trytoamino", src |-> src])
RevTr ==
    /\ Len(hist) = 0
    /\ \E aa \in AminoCodes : TryToCodon(aa) /\ Ev([op |-> "trytocodon", aa |-> aa, c |-> "iupac"])
GNext == Load \/ Ask \/ RevTr
GSpec == GInit /\ [][GNext]_gvars
Emit == (Len(hist) = 2 \/ (Len(hist) = 1 /\ hist[1].op = "trytocodon")) => PrintT(<<"REPLAY", ToJson(hist)>>)
=============================================================================
