mod cx;
mod drv;
mod hashrec;
mod kd;
mod lits;
mod rng;
mod scen;
mod special;
mod world;

use std::io::Write;

fn usage() -> ! {
    eprintln!("usage: bsx drive <scenario> <codec> <seed> <scale> <out.ndjson>");
    eprintln!("       bsx rerun <codec> <ops.ndjson> <out.ndjson>");
    std::process::exit(2)
}

fn main() {
    // panics of the code under test are data, not noise
    std::panic::set_hook(Box::new(|_| {}));
    let args: Vec<String> = std::env::args().collect();
    if args.len() < 2 {
        usage();
    }
    match args[1].as_str() {
        "drive" => {
            if args.len() != 7 {
                usage();
            }
            let scen = args[2].as_str();
            let codec = args[3].as_str();
            let seed: u64 = args[4].parse().unwrap();
            let scale: usize = args[5].parse().unwrap();
            let lines = with_codec!(codec, A => scen::run::<A>(scen, seed, scale));
            let mut f = std::io::BufWriter::new(std::fs::File::create(&args[6]).unwrap());
            for l in &lines {
                writeln!(f, "{l}").unwrap();
            }
            println!("{}", lines.len());
        }
        "rerun" => {
            // re-execute recorded calls (observations dropped) on the current tree
            if args.len() != 5 {
                usage();
            }
            let codec = args[2].as_str();
            let text = std::fs::read_to_string(&args[3]).unwrap();
            let lines = with_codec!(codec, A => rerun::<A>(&text));
            let mut f = std::io::BufWriter::new(std::fs::File::create(&args[4]).unwrap());
            for l in &lines {
                writeln!(f, "{l}").unwrap();
            }
            println!("{}", lines.len());
        }
        _ => usage(),
    }
}

fn rerun<A: cx::Cx>(text: &str) -> Vec<String> {
    let mut w = world::World::<A>::new();
    let mut out = Vec::new();
    for line in text.lines() {
        if line.trim().is_empty() {
            continue;
        }
        let mut ev: serde_json::Value = serde_json::from_str(line).unwrap();
        let m = ev.as_object_mut().unwrap();
        m.remove("obs");
        m.remove("known");
        if ev["op"] == "cell" || ev["op"] == "codecinfo" {
            // table dumps are regenerated wholesale
            continue;
        }
        let obs = w.exec(&ev);
        out.push(world::merge(&ev, obs).to_string());
    }
    out
}
