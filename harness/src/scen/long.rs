//! Long sequences (many machine words): a small number of events per property with lengths far
//! beyond the boundary lengths of the other scenarios -- 5 words +- 1 symbol, ~300, ~1000, ~2000
//! symbols -- and positions deep inside the sequence.
use crate::cx::Cx;
use crate::drv::{sl, step, whole, Drv};
use crate::scen::c08::is_ord;
use serde_json::json;

fn lens<A: Cx>(d: &mut Drv<A>, scale: usize) -> Vec<usize> {
    let w = A::BITS as usize;
    // ... and one beyond 128 machine words (8192 bits)
    let mut v = vec![5 * 64 / w + 1, 300 + d.rng.below(9), 1021 + d.rng.below(9), 8192 / w + 70 + d.rng.below(40)];
    if scale > 1 {
        v.extend([9 * 64 / w - 1, 17 * 64 / w, 2040 + d.rng.below(20), 4099]);
    }
    v
}

/// one call delivering more than 32768 bits (512 machine words), and more than 65536
fn huge<A: Cx>(d: &mut Drv<A>, scale: usize) -> Vec<usize> {
    let w = A::BITS as usize;
    let mut v = vec![32768 / w + 50 + d.rng.below(30)];
    if scale > 1 {
        v.push(65536 / w + 70);
    }
    v
}

pub fn run<A: Cx>(d: &mut Drv<A>, focus: &str, scale: usize) {
    let codes = d.codes();
    // ---- single calls that move more than 512 words at once: text parsing, collect, extend, copies
    if matches!(focus, "c01" | "c06" | "c02" | "c07" | "c18" | "c04") {
        for n in huge(d, scale) {
            let t = d.rand_syms(n);
            match focus {
                "c01" => {
                    let txt = d.rand_text(n);
                    let entry = *d.rng.pick(&["str", "bytes", "collect", "fromstr"]);
                    d.emit(json!({"op": "parse", "dst": 1, "c": A::NAME, "entry": entry, "bytes": txt}));
                    d.emit(json!({"op": "parse", "dst": 2, "c": A::NAME, "entry": "loosecollect", "adaptor": "filter", "junk": 5, "bytes": txt}));
                }
                "c06" => {
                    let via = *d.rng.pick(&["iter", "vec", "extendtrait", "looseextend"]);
                    d.emit(json!({"op": "fromsyms", "dst": 1, "c": A::NAME, "via": via, "adaptor": "filter", "junk": 3, "syms": t}));
                    let more = d.rand_syms(n);
                    d.emit(json!({"op": "extend", "dst": 1, "syms": more}));
                    d.emit(json!({"op": "toowned", "dst": 2, "src": sl(1, 5, 2 * n - 3), "via": "collect"}));
                    d.emit(json!({"op": "append", "dst": 2, "src": sl(1, 1, n)}));
                }
                "c02" => {
                    d.emit(json!({"op": "fromsyms", "dst": 1, "c": A::NAME, "via": "iter", "syms": t}));
                    d.emit(json!({"op": "toowned", "dst": 2, "src": sl(1, 3, n), "via": "to_owned"}));
                    d.emit(json!({"op": "eq", "x": {"kind": "seq", "src": whole(2)}, "y": {"kind": "slice", "src": sl(1, 3, n)}}));
                    d.emit(json!({"op": "hash", "x": {"kind": "seq", "src": whole(2)}}));
                    d.emit(json!({"op": "hash", "x": {"kind": "refslice", "src": sl(1, 3, n)}}));
                }
                "c07" => {
                    d.emit(json!({"op": "fromsyms", "dst": 1, "c": A::NAME, "via": "iter", "syms": t}));
                    for tf in crate::scen::c07::transforms::<A>() {
                        d.emit(json!({"op": "copying", "dst": 2, "src": sl(1, 2, n - 1), "t": tf, "via": "slice"}));
                    }
                }
                "c18" => {
                    d.emit(json!({"op": "fromsyms", "dst": 1, "c": A::NAME, "via": "iter", "syms": t}));
                    d.emit(json!({"op": "serde", "dst": 2, "r": 1, "fmt": "bincode"}));
                    d.emit(json!({"op": "serde", "dst": 2, "r": 1, "fmt": "json_reader"}));
                }
                _ => {
                    d.emit(json!({"op": "fromsyms", "dst": 1, "c": A::NAME, "via": "iter", "syms": t}));
                    let o = d.emit(json!({"op": "intoraw", "r": 1}));
                    d.emit(json!({"op": "fromraw", "dst": 2, "c": A::NAME, "n": n, "limbs": o["limbs"]}));
                }
            }
            d.reset();
        }
    }
    for n in lens(d, scale) {
        let off = 1 + d.rng.below(70);
        let t = d.rand_syms(off + n + 3);
        // the parent itself has a history (interactions between features)
        if d.rng.chance(1, 2) {
            d.produce(0, &t);
        } else {
            d.emit(json!({"op": "fromsyms", "dst": 0, "c": A::NAME, "via": "iter", "syms": t}));
        }
        let x = sl(0, off, off + n);
        let far = n - 1 - d.rng.below(n.min(40)); // a position near the far end
        let mid = n / 2 + d.rng.below(7);
        match focus {
            "c01" => {
                let mut txt = d.rand_text(n);
                for entry in ["str", "bytes", "collect", "fromstr"] {
                    d.emit(json!({"op": "parse", "dst": 1, "c": A::NAME, "entry": entry, "bytes": txt}));
                }
                d.emit(json!({"op": "str", "src": sl(1, mid, n), "via": "to_string"}));
                d.emit(json!({"op": "str", "src": whole(1), "via": "seq_into_string"}));
                txt[far] = b'!' ^ (if A::NAME == "mdna" { 1 } else { 0 });
                txt[mid] = b'#';
                d.emit(json!({"op": "parse", "dst": 2, "c": A::NAME, "entry": "string", "bytes": txt}));
                d.emit(json!({"op": "parse", "dst": 2, "c": A::NAME, "entry": "vec", "bytes": txt}));
            }
            "c02" => {
                d.emit(json!({"op": "toowned", "dst": 1, "src": x.clone(), "via": "to_owned"}));
                let mut y: Vec<u8> = t[off..off + n].to_vec();
                y[far] = *d.rng.pick(&codes);
                let o2 = d.rng.below(64);
                let mut p = d.rand_syms(o2);
                p.extend_from_slice(&y);
                d.emit(json!({"op": "fromsyms", "dst": 2, "c": A::NAME, "via": "vec", "syms": p}));
                let ys = sl(2, o2, o2 + n);
                for (a, b) in [("seq", "slice"), ("slice", "slice"), ("refslice", "seq")] {
                    let xa = if a == "seq" { json!({"kind": a, "src": whole(1)}) } else { json!({"kind": a, "src": x.clone()}) };
                    let yb = if b == "seq" { json!({"kind": b, "src": whole(1)}) } else { json!({"kind": b, "src": ys.clone()}) };
                    d.emit(json!({"op": "eq", "x": xa, "y": yb}));
                }
                d.emit(json!({"op": "hash", "x": {"kind": "seq", "src": whole(1)}}));
                d.emit(json!({"op": "hash", "x": {"kind": "slice", "src": x.clone()}}));
                d.emit(json!({"op": "hash", "x": {"kind": "refslice", "src": ys.clone()}}));
                d.emit(json!({"op": "mapget", "keys": [1], "q": x.clone()}));
                d.emit(json!({"op": "mapget", "keys": [1], "q": ys.clone()}));
            }
            "c03" => {
                for _ in 0..4 {
                    let a = d.rng.range(0, n);
                    let b = d.rng.range(a, n);
                    let m = b - a;
                    let c = d.rng.range(0, m);
                    let path = json!([step("r", off, off + n), step("r", a, b), step("rf", c, 0)]);
                    let k = m - c;
                    let p = vec![0, k / 2, k.saturating_sub(1), k, k + 1];
                    d.emit(json!({"op": "obs", "src": {"base": "reg", "r": 0, "path": path}, "gets": p, "nths": p}));
                }
                d.emit(json!({"op": "obs", "src": {"base": "reg", "r": 0, "path": [step("ri", off, off + n + 3)]}, "gets": [], "nths": []}));
            }
            "c04" => {
                d.emit(json!({"op": "toowned", "dst": 1, "src": x.clone(), "via": "to_owned"}));
                let o = d.emit(json!({"op": "intoraw", "r": 1}));
                d.emit(json!({"op": "fromraw", "dst": 2, "c": A::NAME, "n": n, "limbs": o["limbs"]}));
                d.emit(json!({"op": "fromraw", "dst": 2, "c": A::NAME, "n": n - 1, "limbs": o["limbs"]}));
                let words = o["limbs"].as_array().unwrap().len() / 4;
                let cap = words * 64 / A::BITS as usize;
                d.emit(json!({"op": "fromraw", "dst": 2, "c": A::NAME, "n": cap + 1, "limbs": o["limbs"]}));
                d.emit(json!({"op": "remove", "dst": 1, "range": step("rt", 0, mid)}));
                d.emit(json!({"op": "intoraw", "r": 1}));
                d.emit(json!({"op": "copying", "dst": 3, "src": x.clone(), "t": "rev", "via": "slice"}));
                d.emit(json!({"op": "intoraw", "r": 3}));
            }
            "c06" => {
                d.emit(json!({"op": "toowned", "dst": 1, "src": x.clone(), "via": "collect"}));
                d.emit(json!({"op": "clone", "dst": 2, "r": 1}));
                for _ in 0..(6 * scale.max(1)) {
                    let m = d.len(1);
                    match d.rng.below(7) {
                        0 => {
                            let i = d.rng.range(m / 3, m);
                            let s = d.rand_src(0);
                            d.emit(json!({"op": "insert", "dst": 1, "i": i, "src": s}));
                        }
                        1 => {
                            let a = d.rng.range(0, m);
                            let b = d.rng.range(a, (a + 130).min(m));
                            d.emit(json!({"op": "remove", "dst": 1, "range": step("r", a, b)}));
                        }
                        2 => {
                            let s = d.rand_src(0);
                            d.emit(json!({"op": "prepend", "dst": 1, "src": s}));
                        }
                        3 => {
                            let s = sl(0, d.rng.below(off), off + d.rng.below(n));
                            d.emit(json!({"op": "append", "dst": 1, "src": s}));
                        }
                        4 => {
                            let xs = d.rand_syms(3);
                            d.emit(json!({"op": "extend", "dst": 1, "syms": xs}));
                        }
                        5 => {
                            let k = d.rng.range(m.saturating_sub(70), m);
                            d.emit(json!({"op": "truncate", "dst": 1, "n": k}));
                        }
                        _ => {
                            let xv = d.rand_syms(1)[0];
                            d.emit(json!({"op": "push", "dst": 1, "x": xv}));
                        }
                    }
                }
                d.obs(whole(2));
                d.obs(x.clone());
            }
            "c07" | "c20" => {
                let ts: Vec<&str> = if focus == "c20" { vec!["mask", "unmask"] } else { crate::scen::c07::transforms::<A>() };
                if focus == "c20" && A::NAME == "mdna" {
                    let spoken: Vec<u8> = b"ACGTNacgtn-.".iter().map(|&c| A::try_from_ascii(c).unwrap().to_bits()).collect();
                    let t2: Vec<u8> = (0..off + n + 3).map(|_| *d.rng.pick(&spoken)).collect();
                    d.emit(json!({"op": "fromsyms", "dst": 0, "c": A::NAME, "via": "iter", "syms": t2}));
                }
                for tf in ts {
                    d.emit(json!({"op": "copying", "dst": 1, "src": x.clone(), "t": tf, "via": "slice"}));
                    d.emit(json!({"op": "toowned", "dst": 2, "src": x.clone(), "via": "to_owned"}));
                    d.emit(json!({"op": "inplace", "dst": 2, "t": tf}));
                    d.emit(json!({"op": "eq", "x": {"kind": "seq", "src": whole(1)}, "y": {"kind": "seq", "src": whole(2)}}));
                    d.emit(json!({"op": "inplace", "dst": 2, "t": tf}));
                }
                d.obs(x.clone());
            }
            "c10" => {
                if is_ord::<A>() {
                    d.emit(json!({"op": "toowned", "dst": 1, "src": x.clone(), "via": "to_owned"}));
                    for pos in [0, mid, far, n - 1] {
                        let mut y: Vec<u8> = t[off..off + n].to_vec();
                        y[pos] = *d.rng.pick(&codes);
                        let q = d.rng.below(n);
                        y[q] = *d.rng.pick(&codes);
                        d.emit(json!({"op": "fromsyms", "dst": 2, "c": A::NAME, "via": "iter", "syms": y}));
                        d.emit(json!({"op": "cmp", "x": {"kind": "seq", "src": whole(1)}, "y": {"kind": "seq", "src": whole(2)}}));
                        d.emit(json!({"op": "cmp", "x": {"kind": "seq", "src": whole(2)}, "y": {"kind": "seq", "src": whole(1)}}));
                    }
                }
            }
            "c11" => {
                for kind in ["iter", "rev"] {
                    d.emit(json!({"op": "itrun", "kind": kind, "x": x.clone(), "y": whole(0), "w": 0}));
                }
                d.emit(json!({"op": "itrun", "kind": "chain", "x": sl(0, 0, off), "y": x.clone(), "w": 0}));
                for wd in [64 / A::BITS as usize + 1, 100, 257, n - 1, n] {
                    if wd >= 1 && wd <= n + 2 {
                        if n - wd.min(n) < 40 {
                            d.emit(json!({"op": "itrun", "kind": "windows", "x": x.clone(), "y": whole(0), "w": wd}));
                        }
                        d.emit(json!({"op": "itrun", "kind": "chunks", "x": x.clone(), "y": whole(0), "w": wd}));
                    }
                }
            }
            "c12" => {
                let o2 = d.rng.below(16);
                let mut t2 = d.rand_syms(o2 + n);
                // a long run of the full set N (all-ones words) / of the gap (all-zero words) inside the operand
                if n > 300 {
                    let a = o2 + d.rng.below(n - 290);
                    let fill = if d.rng.chance(1, 2) { 15 } else { 0 };
                    for v in t2[a..a + 290].iter_mut() {
                        *v = fill;
                    }
                }
                d.emit(json!({"op": "fromsyms", "dst": 1, "c": A::NAME, "via": "iter", "syms": t2}));
                let y = sl(1, o2, o2 + n);
                for (tt, via) in [("or", "ref"), ("and", "ref"), ("or", "owned"), ("and", "ownedcollect")] {
                    d.emit(json!({"op": "bitop", "dst": 2, "x": x.clone(), "y": y.clone(), "t": tt, "via": via}));
                }
                d.emit(json!({"op": "contains", "x": {"kind": "slice", "src": x.clone()}, "y": whole(2)}));
                d.emit(json!({"op": "contains", "x": {"kind": "slice", "src": x.clone()}, "y": sl(2, 0, n - 64)}));
                d.emit(json!({"op": "contains", "x": {"kind": "seq", "src": whole(2)}, "y": x.clone()}));
            }
            "c13" => {
                d.emit(json!({"op": "itrun", "kind": "chunks", "x": x.clone(), "y": whole(0), "w": 3}));
                for _ in 0..24 {
                    let a = d.rng.range(0, n - 3);
                    d.emit(json!({"op": "toamino", "src": sl(0, off + a, off + a + 3)}));
                }
            }
            "c18" => {
                d.emit(json!({"op": "toowned", "dst": 1, "src": x.clone(), "via": "to_owned"}));
                d.emit(json!({"op": "remove", "dst": 1, "range": step("rt", 0, 7)}));
                for fmt in ["json", "bincode"] {
                    d.emit(json!({"op": "serde", "dst": 2, "r": 1, "fmt": fmt}));
                }
            }
            "c19" => {
                for to in ["iupac", "text"] {
                    d.emit(json!({"op": "convert", "src": x.clone(), "to": to, "via": "slice"}));
                }
                let mut junk: Vec<u8> = (0..off).map(|_| b'#').collect();
                junk.extend(d.rand_text(n));
                junk.extend_from_slice(b"  \n");
                d.emit(json!({"op": "trim", "dst": 1, "c": A::NAME, "bytes": junk}));
                junk[off + far] = b'#';
                d.emit(json!({"op": "trim", "dst": 1, "c": A::NAME, "bytes": junk}));
            }
            o => panic!("long: focus {o}"),
        }
    }
    d.reset();
}
