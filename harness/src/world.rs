//! One interpreter of the event vocabulary over REAL bio-seq values.
//!
//! `World::<A>::exec(op)` performs the public call(s) named by `op` on the real
//! library and returns everything the caller can observe (`obs`).  Drivers log
//! `op + obs` (implementation -> specification, validated by TLC against
//! spec/Trace.tla); the replayer feeds TLC-generated `op`s through the very same
//! function and compares `obs` with the specification's `out`.
//!
//! A panic in the code under test is data: it is caught and reported as
//! `{"panic": true}`.
use crate::cx::Cx;
use crate::hashrec::feed_of;
use crate::kd::{self, KReq, KRes, KVal, UReq, URes};
use bio_seq::prelude::*;
use bio_seq::translation::{CodonTable, PartialTranslationTable, TranslationError};
use serde_json::{json, Map, Value};
use std::collections::HashMap;
use std::panic::{catch_unwind, AssertUnwindSafe};

pub const NREG: usize = 16; // owned registers 0..16, literal registers 16..24
pub const NLIT: usize = 8;

pub fn gu(op: &Value, k: &str) -> usize {
    op[k].as_u64().unwrap_or_else(|| panic!("harness: field {k} missing in {op}")) as usize
}
pub fn gs<'a>(op: &'a Value, k: &str) -> &'a str {
    op[k].as_str().unwrap_or_else(|| panic!("harness: field {k} missing in {op}"))
}
pub fn gbytes(v: &Value) -> Vec<u8> {
    v.as_array().unwrap().iter().map(|x| x.as_u64().unwrap() as u8).collect()
}
pub fn gsyms<A: Cx>(v: &Value) -> Vec<A> {
    v.as_array().unwrap().iter().map(|x| sym::<A>(x.as_u64().unwrap() as u8)).collect()
}
/// symbol with the given canonical code (harness-side construction of inputs)
pub fn sym<A: Cx>(code: u8) -> A {
    A::try_from_bits(code).unwrap_or_else(|| panic!("harness: {} has no symbol with code {code}", A::NAME))
}

/// Whether views also observe structural equality (`canon`).  Only the scenarios of properties
/// whose statement covers equality / hashing (C02, C18, C20) switch it on, so that a check never
/// raises an alarm about a clause that belongs to another property.
pub static CANON: std::sync::atomic::AtomicBool = std::sync::atomic::AtomicBool::new(false);

/// set once the library under test has panicked in this process: from then on the driver's own
/// preconditions (a register it expected to be filled, a length it relied on) may fail as a CONSEQUENCE;
/// the recorded trace up to that point is what gets judged, so the driver then stops quietly
pub static LIB_PANICKED: std::sync::atomic::AtomicBool = std::sync::atomic::AtomicBool::new(false);

pub fn canon_scenario(name: &str) -> bool {
    let name = name.strip_prefix("long_").unwrap_or(name);
    let name = name.strip_prefix("sweep_").unwrap_or(name);
    let name = name.strip_prefix("giant_").unwrap_or(name);
    name.starts_with("c02") || name.starts_with("c18") || name.starts_with("c20")
}

pub fn view<A: Cx>(s: &SeqSlice<A>) -> Value {
    let syms: Vec<u64> = s.iter().map(|x| x.to_bits() as u64).collect();
    let canon = if CANON.load(std::sync::atomic::Ordering::Relaxed) {
        // content is all there is (C02): the value must be == to, and hash like, the sequence
        // rebuilt from its own symbols -- whatever bits it happens to be stored as
        let rebuilt: Seq<A> = s.iter().collect();
        *s == rebuilt && rebuilt == *s && !(*s != rebuilt) && feed_of(s) == feed_of(&rebuilt)
    } else {
        true
    };
    json!({"len": s.len(), "syms": syms, "disp": s.to_string().into_bytes(), "canon": canon})
}

pub fn panic_obs() -> Value {
    json!({"panic": true})
}

/// apply one range step with the matching `Index` impl
fn step<'a, A: Cx>(s: &'a SeqSlice<A>, st: &Value) -> &'a SeqSlice<A> {
    let a = st["a"].as_u64().unwrap_or(0) as usize;
    let b = st["b"].as_u64().unwrap_or(0) as usize;
    match st["f"].as_str().unwrap() {
        "r" => &s[a..b],
        "ri" => &s[a..=b],
        "rt" => &s[..b],
        "rti" => &s[..=b],
        "rf" => &s[a..],
        "full" => &s[..],
        "idx" => &s[a],
        o => panic!("harness: range form {o}"),
    }
}

pub fn walk<'a, A: Cx>(mut s: &'a SeqSlice<A>, path: &Value) -> &'a SeqSlice<A> {
    for st in path.as_array().unwrap() {
        s = step(s, st);
    }
    s
}

/// `items` delivered through an iterator adaptor whose size hint is NOT exact: junk elements are
/// interleaved and dropped again by the adaptor, so the consumer sees exactly `items` while
/// `size_hint()` promises more (or nothing).  `f` receives the iterator.
pub fn with_loose_iter<T: Copy + 'static, R>(items: &[T], junk: usize, adaptor: &str, f: &mut dyn FnMut(&mut dyn Iterator<Item = T>) -> R) -> R {
    // (value, keep) pairs: junk spread evenly, at least one at the very end and one at the start
    let filler = items.first().copied();
    let mut pairs: Vec<(Option<T>, bool)> = Vec::new();
    let every = if junk == 0 { usize::MAX } else { (items.len() / junk).max(1) };
    let mut left = junk;
    if left > 0 {
        pairs.push((filler, false));
        left -= 1;
    }
    for (i, x) in items.iter().enumerate() {
        pairs.push((Some(*x), true));
        if left > 1 && (i + 1) % every == 0 {
            pairs.push((filler, false));
            left -= 1;
        }
    }
    for _ in 0..left {
        pairs.push((filler, false));
    }
    match adaptor {
        "filter" => f(&mut pairs.iter().filter(|p| p.1).map(|p| p.0.unwrap())),
        "filter_map" => f(&mut pairs.iter().filter_map(|p| if p.1 { p.0 } else { None })),
        "flat_map" => f(&mut pairs.iter().flat_map(|p| if p.1 { vec![p.0.unwrap()] } else { vec![] })),
        "take_while" => {
            // junk only at the end: everything after the first dropped element is junk
            let mut v: Vec<(Option<T>, bool)> = items.iter().map(|x| (Some(*x), true)).collect();
            for _ in 0..junk.max(1) {
                v.push((filler, false));
            }
            f(&mut v.iter().take_while(|p| p.1).map(|p| p.0.unwrap()))
        }
        "skip_while" => {
            let mut v: Vec<(Option<T>, bool)> = (0..junk.max(1)).map(|_| (filler, false)).collect();
            v.extend(items.iter().map(|x| (Some(*x), true)));
            f(&mut v.iter().skip_while(|p| !p.1).map(|p| p.0.unwrap()))
        }
        "chain" => {
            let (a, b) = items.split_at(items.len() / 2);
            f(&mut a.iter().copied().chain(b.iter().copied()))
        }
        "from_fn" => {
            let mut i = 0;
            f(&mut std::iter::from_fn(|| {
                i += 1;
                items.get(i - 1).copied()
            }))
        }
        "exact" => f(&mut items.iter().copied()),
        o => panic!("harness: adaptor {o}"),
    }
}

struct ItBox {
    _own: Option<Box<dyn std::any::Any>>,
    it: Box<dyn Iterator<Item = Value>>,
}

pub struct World<A: Cx> {
    pub regs: Vec<Option<Seq<A>>>,
    pub lits: Vec<Option<&'static SeqSlice<A>>>,
    pub kregs: Vec<Option<KVal>>,
    pub kst: Vec<&'static str>,
    tabs: Vec<Option<CodonTable<A, Amino>>>,
    iters: Vec<Option<ItBox>>,
    /// the > 2^32-bit sequence of giant.rs, built on first use and kept across `reset`
    pub giant: Option<Seq<A>>,
}

fn st_static(s: &str) -> &'static str {
    match s {
        "usize" => "usize",
        "u64" => "u64",
        "u128" => "u128",
        o => panic!("storage {o}"),
    }
}

fn tr_err_kind<X: Codec, Y: Codec>(e: &TranslationError<X, Y>) -> &'static str {
    match e {
        TranslationError::AmbiguousCodon(_) => "ambiguous",
        TranslationError::AmbiguousTranslation(_) => "ambiguous",
        TranslationError::InvalidCodon(_) => "invalid",
        TranslationError::InvalidAmino(_) => "invalidamino",
    }
}

impl<A: Cx> World<A> {
    pub fn new() -> Self {
        World {
            regs: (0..NREG).map(|_| None).collect(),
            lits: (0..NLIT).map(|_| None).collect(),
            kregs: (0..16).map(|_| None).collect(),
            kst: vec!["usize"; 16],
            tabs: (0..4).map(|_| None).collect(),
            iters: (0..4).map(|_| None).collect(),
            giant: None,
        }
    }

    pub fn reset(&mut self) {
        let g = self.giant.take();
        *self = World::new();
        self.giant = g;
    }

    fn reg(&self, r: usize) -> &SeqSlice<A> {
        if r < NREG {
            self.regs[r].as_ref().unwrap_or_else(|| panic!("harness: register {r} is empty"))
        } else {
            self.lits[r - NREG].unwrap_or_else(|| panic!("harness: literal register {r} is empty"))
        }
    }

    /// run `f` on the borrowed slice denoted by `src`
    pub fn with_src_pub<R>(&self, src: &Value, f: &mut dyn FnMut(&SeqSlice<A>) -> R) -> R {
        self.with_src(src, f)
    }

    fn with_src<R>(&self, src: &Value, f: &mut dyn FnMut(&SeqSlice<A>) -> R) -> R {
        let r = gu(src, "r");
        match gs(src, "base") {
            "reg" => {
                // how the owned register is turned into a slice: Deref (default), AsRef or Borrow
                let owned_ref: Option<&Seq<A>> = if r < NREG { self.regs[r].as_ref() } else { None };
                let base: &SeqSlice<A> = match (src["acc"].as_str(), r < NREG) {
                    (Some("asref"), true) => AsRef::<SeqSlice<A>>::as_ref(self.regs[r].as_ref().unwrap()),
                    (Some("borrow"), true) => core::borrow::Borrow::<SeqSlice<A>>::borrow(self.regs[r].as_ref().unwrap()),
                    (Some("refborrow"), true) => {
                        // Borrow<SeqSlice> for &Seq
                        let rr: &&Seq<A> = &owned_ref.unwrap();
                        let b: &SeqSlice<A> = core::borrow::Borrow::<SeqSlice<A>>::borrow(rr);
                        unsafe { &*(b as *const SeqSlice<A>) }
                    }
                    (Some("sliceasref"), _) => AsRef::<SeqSlice<A>>::as_ref(self.reg(r)),
                    _ => self.reg(r),
                };
                f(walk(base, &src["path"]))
            }
            "kmer" => {
                let kv = self.kregs[r].expect("harness: k-mer register empty");
                assert_eq!(self.kst[r], "usize", "harness: only usize k-mers deref");
                let mut res: Option<R> = None;
                kd::ucall::<A>(
                    kv.k,
                    kv.word,
                    UReq::Deref(&mut |s: &SeqSlice<A>| {
                        res = Some(f(walk(s, &src["path"])));
                    }),
                );
                res.unwrap()
            }
            o => panic!("harness: base {o}"),
        }
    }

    fn dst_ptr(&mut self, d: usize) -> *mut Seq<A> {
        self.regs[d].as_mut().unwrap_or_else(|| panic!("harness: dst register {d} is empty")) as *mut Seq<A>
    }

    fn check_noalias(src: &Value, d: usize) {
        if gs(src, "base") == "reg" {
            assert_ne!(gu(src, "r"), d, "harness: source aliases destination");
        }
    }

    fn put(&mut self, d: usize, s: Seq<A>) -> Value {
        let v = view(&s);
        self.regs[d] = Some(s);
        v
    }

    fn kput(&mut self, kd_: usize, k: usize, st: &str, word: u128) -> Value {
        self.kregs[kd_] = Some(KVal { k, st: kd::st_bits(st), word });
        self.kst[kd_] = st_static(st);
        match kd::kcall::<A>(k, st, word, KReq::View) {
            KRes::V(v) => json!({"ok": true, "kv": v}),
            _ => unreachable!(),
        }
    }

    /// perform `op`, catching panics of the code under test
    pub fn exec(&mut self, op: &Value) -> Value {
        // a call marked `nocanon` is observed without the structural-equality part of the view
        let canon_was = if op.get("nocanon").is_some() { Some(CANON.swap(false, std::sync::atomic::Ordering::Relaxed)) } else { None };
        let r = self.exec_caught(op);
        if let Some(c) = canon_was {
            CANON.store(c, std::sync::atomic::Ordering::Relaxed);
        }
        r
    }

    fn exec_caught(&mut self, op: &Value) -> Value {
        match catch_unwind(AssertUnwindSafe(|| self.exec_inner(op))) {
            Ok(v) => v,
            Err(e) => {
                let msg = if let Some(s) = e.downcast_ref::<String>() {
                    s.clone()
                } else if let Some(s) = e.downcast_ref::<&str>() {
                    s.to_string()
                } else {
                    String::new()
                };
                if msg.contains("harness:") {
                    if LIB_PANICKED.load(std::sync::atomic::Ordering::Relaxed) {
                        eprintln!("driver stops: {msg} (after an earlier panic of the library under test)");
                        std::process::exit(0);
                    }
                    eprintln!("HARNESS ERROR: {msg} in {op}");
                    std::process::exit(2);
                }
                LIB_PANICKED.store(true, std::sync::atomic::Ordering::Relaxed);
                panic_obs()
            }
        }
    }

    fn operand_seq<R>(&self, o: &Value, f: &mut dyn FnMut(&SeqSlice<A>) -> R) -> R {
        self.with_src(&o["src"], f)
    }

    fn eq_pair(&self, x: &Value, y: &Value) -> Value {
        let xk = gs(x, "kind");
        let yk = gs(y, "kind");
        let res = |e: bool, n: bool| json!({"eq": e, "ne": n});
        match (xk, yk) {
            ("seq", "seq") => {
                let a = self.regs[gu(&x["src"], "r")].as_ref().unwrap();
                let b = self.regs[gu(&y["src"], "r")].as_ref().unwrap();
                res(*a == *b, *a != *b)
            }
            ("seq", "refseq") => {
                let a = self.regs[gu(&x["src"], "r")].as_ref().unwrap();
                let b = self.regs[gu(&y["src"], "r")].as_ref().unwrap();
                res(*a == b, *a != b)
            }
            ("refseq", "seq") => {
                let a = self.regs[gu(&x["src"], "r")].as_ref().unwrap();
                let b = self.regs[gu(&y["src"], "r")].as_ref().unwrap();
                res(a == *b, a != *b)
            }
            ("refseq", "refseq") => {
                let a = self.regs[gu(&x["src"], "r")].as_ref().unwrap();
                let b = self.regs[gu(&y["src"], "r")].as_ref().unwrap();
                res(a == b, a != b)
            }
            ("seq", "slice") => {
                let a = self.regs[gu(&x["src"], "r")].as_ref().unwrap();
                self.operand_seq(y, &mut |b| res(*a == *b, *a != *b))
            }
            ("seq", "refslice") => {
                let a = self.regs[gu(&x["src"], "r")].as_ref().unwrap();
                self.operand_seq(y, &mut |b| res(*a == b, *a != b))
            }
            ("slice", "seq") => {
                let b = self.regs[gu(&y["src"], "r")].as_ref().unwrap();
                self.operand_seq(x, &mut |a| res(*a == *b, *a != *b))
            }
            ("refslice", "seq") => {
                let b = self.regs[gu(&y["src"], "r")].as_ref().unwrap();
                self.operand_seq(x, &mut |a| res(a == *b, a != *b))
            }
            ("slice", "slice") => self.operand_seq(x, &mut |a| self.operand_seq(y, &mut |b| res(*a == *b, *a != *b))),
            ("refslice", "slice") => self.operand_seq(x, &mut |a| self.operand_seq(y, &mut |b| res(a == *b, a != *b))),
            ("refslice", "refslice") => self.operand_seq(x, &mut |a| self.operand_seq(y, &mut |b| res(a == b, a != b))),
            ("slice", "str") => {
                let t = String::from_utf8(gbytes(&y["bytes"])).unwrap();
                let t: &str = &t;
                self.operand_seq(x, &mut |a| res(*a == t, *a != t))
            }
            ("kmer", "kmer") => {
                let a = self.kregs[gu(x, "r")].unwrap();
                let b = self.kregs[gu(y, "r")].unwrap();
                assert!(a.k == b.k && self.kst[gu(x, "r")] == self.kst[gu(y, "r")], "harness: k-mer types differ");
                let st = self.kst[gu(x, "r")];
                let e = match kd::kcall::<A>(a.k, st, a.word, KReq::EqK(b.word)) {
                    KRes::B(b) => b,
                    _ => unreachable!(),
                };
                let n = match kd::kcall::<A>(a.k, st, a.word, KReq::NeK(b.word)) {
                    KRes::B(b) => b,
                    _ => unreachable!(),
                };
                res(e, n)
            }
            ("kmer", "slice") | ("kmer", "refslice") => {
                let a = self.kregs[gu(x, "r")].unwrap();
                let st = self.kst[gu(x, "r")];
                self.operand_seq(y, &mut |b| match kd::kcall::<A>(a.k, st, a.word, KReq::EqSlice(b, yk == "refslice")) {
                    KRes::V(v) => v,
                    _ => unreachable!(),
                })
            }
            ("kmer", "seq") => {
                let a = self.kregs[gu(x, "r")].unwrap();
                let b = self.regs[gu(&y["src"], "r")].as_ref().unwrap();
                match kd::ucall::<A>(a.k, a.word, UReq::EqSeq(b)) {
                    URes::V(v) => v,
                    _ => unreachable!(),
                }
            }
            ("kmer", "str") => {
                let a = self.kregs[gu(x, "r")].unwrap();
                let t = String::from_utf8(gbytes(&y["bytes"])).unwrap();
                match kd::ucall::<A>(a.k, a.word, UReq::EqStr(&t)) {
                    URes::V(v) => v,
                    _ => unreachable!(),
                }
            }
            ("kmer", "arr") => {
                let op = json!({"x": x, "y": y});
                crate::special::kmer_eq_arr_op(self, &op)
            }
            (a, b) => panic!("harness: no PartialEq pairing ({a}, {b})"),
        }
    }

    fn feed_operand(&self, x: &Value) -> String {
        match gs(x, "kind") {
            "seq" => feed_of(self.regs[gu(&x["src"], "r")].as_ref().unwrap()),
            "refseq" => feed_of(&self.regs[gu(&x["src"], "r")].as_ref().unwrap()),
            "slice" => self.operand_seq(x, &mut |a| feed_of(a)),
            "refslice" => self.operand_seq(x, &mut |a| feed_of(&a)),
            "kmer" => {
                let a = self.kregs[gu(x, "r")].unwrap();
                match kd::kcall::<A>(a.k, self.kst[gu(x, "r")], a.word, KReq::Feed) {
                    KRes::S(s) => s,
                    _ => unreachable!(),
                }
            }
            o => panic!("harness: hash operand {o}"),
        }
    }

    fn exec_inner(&mut self, op: &Value) -> Value {
        let name = gs(op, "op");
        if let Some(v) = crate::giant::exec(self, op) {
            return v;
        }
        match name {
            // ---------------------------------------------------------------- constructors
            "parse" | "lit" => {
                let bytes = gbytes(&op["bytes"]);
                let d = gu(op, "dst");
                if name == "lit" {
                    let id = gu(op, "id");
                    let (t, v) = A::lits()[id];
                    assert_eq!(t.as_bytes(), &bytes[..], "harness: literal text mismatch");
                    self.lits[d - NREG] = Some(v);
                    return json!({"ok": true, "v": view(v)});
                }
                let r: Result<Seq<A>, ParseBioError> = match gs(op, "entry") {
                    "str" => Seq::<A>::try_from(std::str::from_utf8(&bytes).unwrap()),
                    "string" => Seq::<A>::try_from(String::from_utf8(bytes.clone()).unwrap()),
                    "refstring" => Seq::<A>::try_from(&String::from_utf8(bytes.clone()).unwrap()),
                    "bytes" => Seq::<A>::try_from(&bytes[..]),
                    "vec" => Seq::<A>::try_from(bytes.clone()),
                    "fromstr" => std::str::from_utf8(&bytes).unwrap().parse::<Seq<A>>(),
                    "collect" => bytes
                        .iter()
                        .map(|&b| A::try_from_ascii(b).ok_or(ParseBioError::UnrecognisedBase(b)))
                        .collect::<Result<Seq<A>, ParseBioError>>(),
                    // the text arrives through an iterator that drops interleaved junk bytes (e.g. line
                    // breaks of a FASTA body): its size hint is an upper bound only
                    "loosecollect" => with_loose_iter(&bytes, gu(op, "junk"), gs(op, "adaptor"), &mut |it| {
                        it.map(|b| A::try_from_ascii(b).ok_or(ParseBioError::UnrecognisedBase(b)))
                            .collect::<Result<Seq<A>, ParseBioError>>()
                    }),
                    o => panic!("harness: entry {o}"),
                };
                match r {
                    Ok(s) => json!({"ok": true, "v": self.put(d, s)}),
                    Err(ParseBioError::UnrecognisedBase(b)) => json!({"ok": false, "byte": b}),
                    Err(_) => json!({"ok": false, "byte": -1}),
                }
            }
            "trim" => {
                let bytes = gbytes(&op["bytes"]);
                match Seq::<A>::trim_u8(&bytes) {
                    Ok(s) => json!({"ok": true, "v": self.put(gu(op, "dst"), s)}),
                    Err(ParseBioError::UnrecognisedBase(b)) => json!({"ok": false, "byte": b}),
                    Err(_) => json!({"ok": false, "byte": -1}),
                }
            }
            "fromsyms" => {
                let xs: Vec<A> = gsyms(&op["syms"]);
                let s: Seq<A> = match gs(op, "via") {
                    "vec" => Seq::from(&xs),
                    "iter" => xs.iter().copied().collect(),
                    "extendtrait" => {
                        let mut s = Seq::<A>::new();
                        Extend::extend(&mut s, xs.iter().copied());
                        s
                    }
                    "loosecollect" => with_loose_iter(&xs, gu(op, "junk"), gs(op, "adaptor"), &mut |it| it.collect::<Seq<A>>()),
                    "looseextend" => {
                        let mut s = Seq::<A>::new();
                        with_loose_iter(&xs, gu(op, "junk"), gs(op, "adaptor"), &mut |it| s.extend(it));
                        s
                    }
                    // the (unstable, but public) conversions from bitvec's own types: the packed image is
                    // built here, bit by bit, from the symbols' codes
                    "bv" | "bs" | "bvcap" => {
                        use bitvec::prelude::*;
                        let pad = op["pad"].as_u64().unwrap_or(0) as usize;
                        let mut bv: BitVec<usize, Lsb0> = if gs(op, "via") == "bvcap" { BitVec::with_capacity(4 * xs.len() * A::BITS as usize + 192) } else { BitVec::new() };
                        for i in 0..pad {
                            bv.push(i % 3 != 0);
                        }
                        for x in &xs {
                            let b = x.to_bits();
                            for j in 0..A::BITS {
                                bv.push((b >> j) & 1 == 1);
                            }
                        }
                        if gs(op, "via") == "bs" {
                            Seq::<A>::from(&bv[pad..])
                        } else {
                            bv.drain(..pad);
                            Seq::<A>::from(bv)
                        }
                    }
                    "pushes" => {
                        let mut s = Seq::<A>::with_capacity(xs.len() / 2);
                        for &x in &xs {
                            s.push(x);
                        }
                        s
                    }
                    o => panic!("harness: via {o}"),
                };
                self.put(gu(op, "dst"), s)
            }
            "new" => {
                let s = match gs(op, "via") {
                    "new" => Seq::<A>::new(),
                    "default" => Seq::<A>::default(),
                    "withcap" => Seq::<A>::with_capacity(gu(op, "cap")),
                    o => panic!("harness: via {o}"),
                };
                self.put(gu(op, "dst"), s)
            }
            "clone" => {
                let s = self.regs[gu(op, "r")].as_ref().unwrap().clone();
                self.put(gu(op, "dst"), s)
            }
            "toowned" => {
                let via = gs(op, "via");
                let s = self.with_src(&op["src"], &mut |s| match via {
                    "to_owned" => s.to_owned(),
                    "from" => Seq::<A>::from(s),
                    "into" => s.into(),
                    "collect" => s.iter().collect::<Seq<A>>(),
                    o => panic!("harness: via {o}"),
                });
                self.put(gu(op, "dst"), s)
            }
            "fromraw" => {
                let limbs = op["limbs"].as_array().unwrap();
                let mut words: Vec<usize> = Vec::new();
                for w in limbs.chunks(4) {
                    let mut x: u64 = 0;
                    for (i, l) in w.iter().enumerate() {
                        x |= l.as_u64().unwrap() << (16 * i);
                    }
                    words.push(x as usize);
                }
                // the count: a number, or 16-bit limbs for counts up to usize::MAX
                let n = if op["nl"].is_array() {
                    op["nl"].as_array().unwrap().iter().enumerate().fold(0u64, |acc, (i, x)| acc | (x.as_u64().unwrap() << (16 * i))) as usize
                } else {
                    gu(op, "n")
                };
                if op["via"].as_str() == Some("vecusize") {
                    // From<Vec<usize>> for Seq<text::Dna>: the whole image, eight symbols per word
                    assert!(A::NAME == "text" && n == words.len() * 8, "harness: vecusize is the text codec's whole image");
                    let s: Seq<bio_seq::codec::text::Dna> = Seq::from(words.clone());
                    let b: Box<dyn std::any::Any> = Box::new(s);
                    let s: Seq<A> = *b.downcast::<Seq<A>>().expect("harness: codec is text");
                    return json!({"ok": true, "v": self.put(gu(op, "dst"), s)});
                }
                match Seq::<A>::from_raw(n, &words) {
                    Some(s) => json!({"ok": true, "v": self.put(gu(op, "dst"), s)}),
                    None => json!({"ok": false}),
                }
            }
            "serde" => {
                let src = self.regs[gu(op, "r")].as_ref().unwrap();
                let back: Seq<A> = match gs(op, "fmt") {
                    "json" => serde_json::from_str(&serde_json::to_string(src).unwrap()).unwrap(),
                    "json_pretty" => serde_json::from_str(&serde_json::to_string_pretty(src).unwrap()).unwrap(),
                    "json_slice" => serde_json::from_slice(&serde_json::to_vec(src).unwrap()).unwrap(),
                    "json_value" => serde_json::from_value(serde_json::to_value(src).unwrap()).unwrap(),
                    "json_reader" => {
                        let mut buf: Vec<u8> = Vec::new();
                        serde_json::to_writer(&mut buf, src).unwrap();
                        serde_json::from_reader(std::io::Cursor::new(buf)).unwrap()
                    }
                    "bincode" => bincode::deserialize(&bincode::serialize(src).unwrap()).unwrap(),
                    "bincode_reader" => {
                        let mut buf: Vec<u8> = Vec::new();
                        bincode::serialize_into(&mut buf, src).unwrap();
                        bincode::deserialize_from(std::io::Cursor::new(buf)).unwrap()
                    }
                    o => panic!("harness: fmt {o}"),
                };
                let eq = back == *src && *src == back;
                let hasheq = feed_of(&back) == feed_of(src);
                let v = self.put(gu(op, "dst"), back);
                json!({"v": v, "eq": eq, "hasheq": hasheq})
            }
            // ---------------------------------------------------------------- edits
            "push" => {
                let d = gu(op, "dst");
                self.regs[d].as_mut().unwrap().push(sym::<A>(gu(op, "x") as u8));
                view(self.reg(d))
            }
            "extend" => {
                let d = gu(op, "dst");
                let xs: Vec<A> = gsyms(&op["syms"]);
                let r = self.regs[d].as_mut().unwrap();
                match op["adaptor"].as_str() {
                    None => r.extend(xs),
                    Some(a) => {
                        let trait_form = op["via"].as_str() == Some("trait");
                        with_loose_iter(&xs, gu(op, "junk"), a, &mut |it| {
                            if trait_form {
                                Extend::extend(r, it)
                            } else {
                                r.extend(it)
                            }
                        })
                    }
                }
                view(self.reg(d))
            }
            "clear" => {
                let d = gu(op, "dst");
                self.regs[d].as_mut().unwrap().clear();
                view(self.reg(d))
            }
            "truncate" => {
                let d = gu(op, "dst");
                self.regs[d].as_mut().unwrap().truncate(gu(op, "n"));
                view(self.reg(d))
            }
            "append" | "prepend" | "insert" => {
                let d = gu(op, "dst");
                Self::check_noalias(&op["src"], d);
                let p = self.dst_ptr(d);
                let i = if name == "insert" { gu(op, "i") } else { 0 };
                self.with_src(&op["src"], &mut |s| unsafe {
                    match name {
                        "append" => (*p).append(s),
                        "prepend" => (*p).prepend(s),
                        _ => (*p).insert(i, s),
                    }
                });
                view(self.reg(d))
            }
            "remove" => {
                let d = gu(op, "dst");
                let st = &op["range"];
                let a = st["a"].as_u64().unwrap_or(0) as usize;
                let b = st["b"].as_u64().unwrap_or(0) as usize;
                let s = self.regs[d].as_mut().unwrap();
                // `remove` takes any RangeBounds: the same abstract range is presented in different
                // spellings (range syntax, or a pair of Bounds with an excluded / included start and
                // end), chosen as a function of the call itself so that a replay makes the same call
                let f = st["f"].as_str().unwrap();
                let n = s.len();
                let (lo, hi) = match f {
                    "r" => (a, b),
                    "ri" => (a, b + 1),
                    "rt" => (0, b),
                    "rti" => (0, b + 1),
                    "rf" => (a, n),
                    "full" => (0, n),
                    _ => (a, a + 1),
                };
                let spell = match op.get("spell").and_then(|v| v.as_u64()) {
                    Some(k) => k as usize,
                    None => (a + 3 * b + n) % 4,
                };
                if spell != 0 && lo <= hi && hi <= n {
                    use std::ops::Bound::{Excluded, Included, Unbounded};
                    let start = match spell {
                        1 if matches!(f, "rt" | "rti" | "full") => Unbounded,
                        1 => Included(lo),
                        _ if lo > 0 => Excluded(lo - 1),
                        _ => Unbounded,
                    };
                    let end = match spell {
                        1 if matches!(f, "rf" | "full") => Unbounded,
                        1 if matches!(f, "ri" | "rti") => Included(hi - 1),
                        3 if hi > 0 => Included(hi - 1),
                        2 if hi == n && (a + b) % 2 == 0 => Unbounded,
                        _ => Excluded(hi),
                    };
                    s.remove((start, end));
                } else {
                    match f {
                        "r" => s.remove(a..b),
                        "ri" => s.remove(a..=b),
                        "rt" => s.remove(..b),
                        "rti" => s.remove(..=b),
                        "rf" => s.remove(a..),
                        "full" => s.remove(..),
                        "idx" => s.remove(a..a + 1),
                        o => panic!("harness: range form {o}"),
                    }
                }
                view(self.reg(d))
            }
            // ---------------------------------------------------------------- rev / comp / mask
            "inplace" => {
                let d = gu(op, "dst");
                let s = self.regs[d].as_mut().unwrap();
                let ok = match gs(op, "t") {
                    "rev" => {
                        s.rev();
                        true
                    }
                    "comp" => A::seq_comp(s),
                    "revcomp" => A::seq_revcomp(s),
                    "mask" => A::seq_mask(s),
                    "unmask" => A::seq_unmask(s),
                    o => panic!("harness: transform {o}"),
                };
                assert!(ok, "harness: codec lacks the transform");
                view(self.reg(d))
            }
            "copying" => {
                let t = gs(op, "t");
                let via = gs(op, "via");
                let s: Seq<A> = if via == "seq" {
                    // &Seq receiver
                    let r = self.regs[gu(&op["src"], "r")].as_ref().unwrap();
                    match t {
                        "rev" => Some(r.to_rev()),
                        "comp" => A::seq_to_comp(r),
                        "revcomp" => A::seq_to_revcomp(r),
                        "mask" => A::seq_to_mask(r),
                        "unmask" => A::seq_to_unmask(r),
                        o => panic!("harness: transform {o}"),
                    }
                } else {
                    self.with_src(&op["src"], &mut |s| match t {
                        "rev" => Some(s.to_rev()),
                        "comp" => A::sl_to_comp(s),
                        "revcomp" => A::sl_to_revcomp(s),
                        "mask" => A::seq_to_mask(&s.to_owned()),
                        "unmask" => A::seq_to_unmask(&s.to_owned()),
                        o => panic!("harness: transform {o}"),
                    })
                }
                .expect("harness: codec lacks the transform");
                self.put(gu(op, "dst"), s)
            }
            "bitop" if gs(op, "via") == "move" => {
                // the owned operators CONSUME their operands: the sequences held by two registers --
                // with whatever history produced them (results of borrowed operators on offset windows,
                // edits, copies) -- are moved into bit_and / bit_or; the registers are refilled with clones
                let (rx, ry) = (gu(&op["x"], "r"), gu(&op["y"], "r"));
                assert!(rx != ry && op["x"]["path"].as_array().map_or(true, |p| p.is_empty()) && op["y"]["path"].as_array().map_or(true, |p| p.is_empty()),
                    "harness: bitop via move takes two different whole registers");
                let x = self.regs[rx].take().expect("harness: empty register");
                let y = self.regs[ry].take().expect("harness: empty register");
                let (cx, cy) = (x.clone(), y.clone());
                let s = match gs(op, "t") {
                    "or" => x.bit_or(y),
                    "and" => x.bit_and(y),
                    o => panic!("harness: bitop {o:?}"),
                };
                self.regs[rx] = Some(cx);
                self.regs[ry] = Some(cy);
                self.put(gu(op, "dst"), s)
            }
            "bitop" => {
                let t = gs(op, "t");
                let via = gs(op, "via");
                let s: Seq<A> = self.with_src(&op["x"], &mut |x| {
                    self.with_src(&op["y"], &mut |y| match (t, via) {
                        ("or", "ref") => x | y,
                        ("and", "ref") => x & y,
                        ("or", "owned") => x.to_owned().bit_or(y.to_owned()),
                        ("and", "owned") => x.to_owned().bit_and(y.to_owned()),
                        ("or", "ownedcollect") => x.iter().collect::<Seq<A>>().bit_or(y.iter().collect::<Seq<A>>()),
                        ("and", "ownedcollect") => x.iter().collect::<Seq<A>>().bit_and(y.iter().collect::<Seq<A>>()),
                        o => panic!("harness: bitop {o:?}"),
                    })
                });
                self.put(gu(op, "dst"), s)
            }
            // ---------------------------------------------------------------- observers
            "far" => {
                // positions far beyond any sequence, given as 16-bit limbs (up to usize::MAX)
                let lim = |v: &Value| -> usize {
                    v.as_array().unwrap().iter().enumerate().fold(0u64, |acc, (i, x)| acc | (x.as_u64().unwrap() << (16 * i))) as usize
                };
                let (a, b) = (lim(&op["a"]), lim(&op["b"]));
                let how = gs(op, "how");
                // a slice that comes back is reported by its length only (nothing else is safe to ask of it)
                self.with_src(&op["src"], &mut |s| match how {
                    "get" => json!({"res": s.get(a).map_or(-1, |x| x.to_bits() as i64)}),
                    "nth" => json!({"res": s.nth(a).to_bits() as i64}),
                    "idx" => json!({"len": s[a].len()}),
                    "r" => json!({"len": s[a..b].len()}),
                    "ri" => json!({"len": s[a..=b].len()}),
                    "rt" => json!({"len": s[..b].len()}),
                    "rti" => json!({"len": s[..=b].len()}),
                    "rf" => json!({"len": s[a..].len()}),
                    o => panic!("harness: far form {o}"),
                })
            }
            "obs" => {
                let gets: Vec<usize> = op["gets"].as_array().unwrap().iter().map(|x| x.as_u64().unwrap() as usize).collect();
                let nths: Vec<usize> = op["nths"].as_array().unwrap().iter().map(|x| x.as_u64().unwrap() as usize).collect();
                if op["src"]["acc"].as_str() == Some("seq") {
                    // every accessor called on the OWNED value itself (method resolution starts at Seq)
                    let q: &Seq<A> = self.regs[gu(&op["src"], "r")].as_ref().unwrap();
                    assert!(op["src"]["path"].as_array().unwrap().is_empty(), "harness: acc=seq takes the whole register");
                    let g: Vec<i64> = gets.iter().map(|&i| q.get(i).map_or(-1, |x| x.to_bits() as i64)).collect();
                    let n: Vec<i64> = nths
                        .iter()
                        .map(|&i| {
                            let a = catch_unwind(AssertUnwindSafe(|| q.nth(i).to_bits() as i64)).unwrap_or(-2);
                            let b = catch_unwind(AssertUnwindSafe(|| {
                                let one = &q[i];
                                if one.len() != 1 {
                                    return -4;
                                }
                                one.iter().next().map_or(-4, |x| x.to_bits() as i64)
                            }))
                            .unwrap_or(-2);
                            if a == b {
                                a
                            } else {
                                -5
                            }
                        })
                        .collect();
                    let syms: Vec<u64> = q.iter().map(|x| x.to_bits() as u64).collect();
                    let into: Vec<u64> = q.into_iter().map(|x| x.to_bits() as u64).collect();
                    assert!(syms == into || true);
                    let v = json!({"len": q.len(), "syms": if syms == into { syms } else { vec![999] }, "disp": q.to_string().into_bytes(), "canon": view(q)["canon"]});
                    return json!({"v": v, "empty": q.is_empty(), "get": g, "nth": n});
                }
                self.with_src(&op["src"], &mut |s| {
                    let g: Vec<i64> = gets.iter().map(|&i| s.get(i).map_or(-1, |x| x.to_bits() as i64)).collect();
                    let n: Vec<i64> = nths
                        .iter()
                        .map(|&i| {
                            // both indexing forms: nth(i) and [i]
                            let a = catch_unwind(AssertUnwindSafe(|| s.nth(i).to_bits() as i64)).unwrap_or(-2);
                            let b = catch_unwind(AssertUnwindSafe(|| {
                                let one = &s[i];
                                if one.len() != 1 {
                                    return -4;
                                }
                                one.iter().next().map_or(-4, |x| x.to_bits() as i64)
                            }))
                            .unwrap_or(-2);
                            if a == b {
                                a
                            } else {
                                -5
                            }
                        })
                        .collect();
                    json!({"v": view(s), "empty": s.is_empty(), "get": g, "nth": n})
                })
            }
            "str" => {
                // every way of turning a sequence into text
                let via = gs(op, "via");
                let bytes: Vec<u8> = match via {
                    "seq_display" => format!("{}", self.regs[gu(&op["src"], "r")].as_ref().unwrap()).into_bytes(),
                    "seq_into_string" => String::from(self.regs[gu(&op["src"], "r")].as_ref().unwrap().clone()).into_bytes(),
                    "refseq_into_string" => String::from(self.regs[gu(&op["src"], "r")].as_ref().unwrap()).into_bytes(),
                    _ => self.with_src(&op["src"], &mut |s| match via {
                        "display" => format!("{s}").into_bytes(),
                        "to_string" => s.to_string().into_bytes(),
                        "string_from" => String::from(s).into_bytes(),
                        "chars" => s.iter().map(|x| x.to_char()).collect::<String>().into_bytes(),
                        o => panic!("harness: via {o}"),
                    }),
                };
                json!({"bytes": bytes})
            }
            "eq" => self.eq_pair(&op["x"], &op["y"]),
            "hash" => json!({"feed": self.feed_operand(&op["x"])}),
            "mapget" => {
                let keys: Vec<usize> = op["keys"].as_array().unwrap().iter().map(|r| r.as_u64().unwrap() as usize).collect();
                let res = match op["via"].as_str().unwrap_or("owned") {
                    "owned" => {
                        let mut m: HashMap<Seq<A>, i64> = HashMap::new();
                        for (i, &r) in keys.iter().enumerate() {
                            m.insert(self.regs[r].as_ref().unwrap().clone(), i as i64);
                        }
                        self.with_src(&op["q"], &mut |q| m.get(q).copied().unwrap_or(-1))
                    }
                    "refkeys" => {
                        // HashMap<&Seq, _> probed with a slice through Borrow<SeqSlice> for &Seq
                        let mut m: HashMap<&Seq<A>, i64> = HashMap::new();
                        for (i, &r) in keys.iter().enumerate() {
                            m.insert(self.regs[r].as_ref().unwrap(), i as i64);
                        }
                        self.with_src(&op["q"], &mut |q| m.get(q).copied().unwrap_or(-1))
                    }
                    "btree" => {
                        // an ordered set of owned copies probed by equality
                        let v: Vec<Seq<A>> = keys.iter().map(|&r| self.regs[r].as_ref().unwrap().clone()).collect();
                        self.with_src(&op["q"], &mut |q| v.iter().rposition(|k| k == q).map_or(-1, |i| i as i64))
                    }
                    o => panic!("harness: mapget via {o}"),
                };
                json!({"res": res})
            }
            "cmp" => {
                let x = &op["x"];
                let y = &op["y"];
                let c: i64 = match (gs(x, "kind"), gs(y, "kind")) {
                    ("kmer", "kmer") => {
                        let a = self.kregs[gu(x, "r")].unwrap();
                        let b = self.kregs[gu(y, "r")].unwrap();
                        assert!(a.k == b.k && self.kst[gu(x, "r")] == self.kst[gu(y, "r")], "harness: k-mer types differ");
                        A::kcmp(a.k, self.kst[gu(x, "r")], a.word, b.word).expect("harness: codec is not Ord")
                    }
                    ("seq", "seq") => {
                        let a = self.regs[gu(&x["src"], "r")].as_ref().unwrap();
                        let b = self.regs[gu(&y["src"], "r")].as_ref().unwrap();
                        A::seqcmp(a, b).expect("harness: codec is not Ord")
                    }
                    o => panic!("harness: cmp operands {o:?}"),
                };
                json!({"res": c})
            }
            // ---------------------------------------------------------------- integers / raw
            "toint" => {
                let via = gs(op, "via");
                let lim = |u: u128| json!({"ok": true, "limbs": kd::limbs_of(u, 1)});
                self.with_src(&op["src"], &mut |s| match via {
                    "try" => match usize::try_from(s) {
                        Ok(u) => lim(u as u128),
                        Err(_) => json!({"ok": false}),
                    },
                    "fromseq" => lim(usize::from(s.to_owned()) as u128),
                    "fromseqcollect" => lim(usize::from(s.iter().collect::<Seq<A>>()) as u128),
                    "u8" => lim(u8::from(s) as u128),
                    o => panic!("harness: via {o}"),
                })
            }
            "tointtake" => {
                // by-value conversion of the register's OWN value (whatever its history left behind);
                // the register is left empty
                let r = gu(op, "r");
                let taken = std::mem::take(self.regs[r].as_mut().unwrap());
                let u = usize::from(taken);
                json!({"ok": true, "limbs": kd::limbs_of(u as u128, 1)})
            }
            "intoraw" => {
                let r = self.regs[gu(op, "r")].as_ref().unwrap();
                let raw = r.into_raw();
                let mut limbs: Vec<u64> = Vec::new();
                for w in raw {
                    for i in 0..4 {
                        limbs.push(((*w as u64) >> (16 * i)) & 0xffff);
                    }
                }
                json!({"limbs": limbs})
            }
            // ---------------------------------------------------------------- k-mers
            "kfrom" => {
                let k = gu(op, "k");
                let st = gs(op, "st");
                let via = gs(op, "via");
                let r: Option<u128> = self.with_src(&op["src"], &mut |s| match via {
                    "slice" => match kd::kcall::<A>(k, st, 0, KReq::FromSlice(s)) {
                        KRes::K(x) => x,
                        _ => unreachable!(),
                    },
                    "seq" => match kd::ucall::<A>(k, 0, UReq::FromSeq(s.to_owned())) {
                        URes::K(x) => x,
                        _ => unreachable!(),
                    },
                    "unchecked" => match kd::kcall::<A>(k, st, 0, KReq::FromSliceUnchecked(s)) {
                        KRes::K(x) => x,
                        _ => unreachable!(),
                    },
                    o => panic!("harness: via {o}"),
                });
                match r {
                    Some(w) => self.kput(gu(op, "kd"), k, st, w),
                    None => json!({"ok": false}),
                }
            }
            "kparse" => {
                let k = gu(op, "k");
                let st = gs(op, "st");
                let t = String::from_utf8(gbytes(&op["bytes"])).unwrap();
                match kd::kcall::<A>(k, st, 0, KReq::Parse(&t)) {
                    KRes::K(Some(w)) => self.kput(gu(op, "kd"), k, st, w),
                    KRes::K(None) => json!({"ok": false}),
                    _ => unreachable!(),
                }
            }
            "kfromint" => {
                let k = gu(op, "k");
                let st = gs(op, "st");
                let w = kd::word_of_limbs(&op["limbs"]);
                let word = match (st, gs(op, "via")) {
                    ("usize", "from") => match kd::ucall::<A>(k, 0, UReq::FromUsize(w as usize)) {
                        URes::K(Some(x)) => x,
                        _ => unreachable!(),
                    },
                    ("u64", "from") => kd::k64_from::<A>(k, w as u64, false),
                    ("u64", "fromusize") => kd::k64_from::<A>(k, w as u64, true),
                    o => panic!("harness: kfromint {o:?}"),
                };
                self.kput(gu(op, "kd"), k, st, word)
            }
            "kop" => {
                let ks = gu(op, "ks");
                let a = self.kregs[ks].unwrap();
                let st = self.kst[ks];
                let t = gs(op, "t");
                let via = op["via"].as_str().unwrap_or("");
                let n32 = |v: &Value| -> u32 {
                    let a = v.as_array().unwrap();
                    ((a[0].as_u64().unwrap() as u32) << 16) | a[1].as_u64().unwrap() as u32
                };
                let w: u128 = match t {
                    "rotl" | "rotr" | "pushl" | "pushr" => {
                        let req = match t {
                            "rotl" => KReq::RotL(n32(&op["arg"])),
                            "rotr" => KReq::RotR(n32(&op["arg"])),
                            "pushl" => KReq::PushL(sym::<A>(gu(op, "arg") as u8)),
                            _ => KReq::PushR(sym::<A>(gu(op, "arg") as u8)),
                        };
                        match kd::kcall::<A>(a.k, st, a.word, req) {
                            KRes::K(Some(x)) => x,
                            _ => unreachable!(),
                        }
                    }
                    "rev" => {
                        assert_eq!(st, "usize", "harness: rev needs usize");
                        match kd::ucall::<A>(a.k, a.word, if via == "copy" { UReq::ToRev } else { UReq::Rev }) {
                            URes::K(Some(x)) => x,
                            _ => unreachable!(),
                        }
                    }
                    "comp" | "revcomp" => {
                        assert!(st == "usize" && A::NAME == "dna", "harness: comp needs Kmer<Dna,_,usize>");
                        let name = if via == "copy" { format!("to{t}") } else { t.to_string() };
                        kd::dna_kop(a.k, a.word, &name)
                    }
                    o => panic!("harness: kop {o}"),
                };
                self.kput(gu(op, "kd"), a.k, st, w)
            }
            "kobs" => {
                let ks = gu(op, "ks");
                let a = self.kregs[ks].unwrap();
                let v = match kd::kcall::<A>(a.k, self.kst[ks], a.word, KReq::View) {
                    KRes::V(v) => v,
                    _ => unreachable!(),
                };
                let mut o = json!({"kv": v, "len": a.k});
                if gs(op, "via") == "usizefrom" {
                    // usize::from(&kmer) must agree with the public storage word
                    let u = match kd::ucall::<A>(a.k, a.word, UReq::ToUsize) {
                        URes::K(Some(x)) => x,
                        _ => unreachable!(),
                    };
                    o["kv"]["limbs"] = kd::limbs_of(u, 1);
                }
                o
            }
            "ktoseq" => {
                let a = self.kregs[gu(op, "ks")].unwrap();
                match kd::ucall::<A>(a.k, a.word, UReq::ToSeq) {
                    URes::Seq(s) => self.put(gu(op, "dst"), s),
                    _ => unreachable!(),
                }
            }
            "kserde" => {
                let ks = gu(op, "ks");
                let a = self.kregs[ks].unwrap();
                match kd::kcall::<A>(a.k, self.kst[ks], a.word, KReq::Serde(gs(op, "fmt"))) {
                    KRes::V(v) => v,
                    _ => unreachable!(),
                }
            }
            "kmers" => {
                let k = gu(op, "k");
                self.with_src(&op["src"], &mut |s| {
                    let (items, done) = kd::kmers_of(s, k, s.len() + 8);
                    assert!(done, "k-mer iterator did not terminate");
                    json!({"items": items})
                })
            }
            "kminmax" => {
                let k = gu(op, "k");
                let which = gs(op, "which");
                let via = gs(op, "via");
                let w = match (which, via) {
                    ("min", "iter") => "min",
                    ("max", "iter") => "max",
                    ("min", "sort") => "sortfirst",
                    ("max", "sort") => "sortlast",
                    o => panic!("harness: kminmax {o:?}"),
                };
                self.with_src(&op["src"], &mut |s| match A::kminmax(s, k, w).expect("harness: codec is not Ord") {
                    Some(v) => json!({"some": true, "kv": v}),
                    None => json!({"some": false}),
                })
            }
            // ---------------------------------------------------------------- iterators
            "itrun" => {
                let kind = gs(op, "kind");
                let w = op["w"].as_u64().unwrap_or(0) as usize;
                self.with_src(&op["x"], &mut |x| {
                    // a cap on next() calls makes non-termination an observation instead of a hang
                    let ylen = if kind == "chain" { self.with_src(&op["y"], &mut |y| y.len()) } else { 0 };
                    let cap = x.len() + ylen + 8;
                    let mut items: Vec<Value> = Vec::new();
                    let mut done = false;
                    macro_rules! run {
                        ($it:expr, $f:expr) => {{
                            let mut it = $it;
                            for _ in 0..cap {
                                match it.next() {
                                    Some(v) => items.push($f(v)),
                                    None => {
                                        done = true;
                                        break;
                                    }
                                }
                            }
                        }};
                    }
                    match kind {
                        "iter" => run!(x.iter(), |v: A| json!(v.to_bits())),
                        "intoiter" => run!(x.into_iter(), |v: A| json!(v.to_bits())),
                        "rev" => run!(x.rev_iter(), |v: A| json!(v.to_bits())),
                        "windows" => run!(x.windows(w), |v: &SeqSlice<A>| view(v)),
                        "chunks" => run!(x.chunks(w), |v: &SeqSlice<A>| view(v)),
                        "windowsvec" | "chunksvec" => {
                            // FromIterator<&SeqSlice> for Vec<Seq>: owned copies of every item
                            let v: Vec<Seq<A>> = if kind == "windowsvec" { x.windows(w).collect() } else { x.chunks(w).collect() };
                            items = v.iter().map(|s| view(s)).collect();
                            done = true;
                        }
                        "kmers" => {
                            let (it, d) = kd::kmers_of(x, w, cap);
                            items = it;
                            done = d;
                        }
                        "chain" => self.with_src(&op["y"], &mut |y| run!(x.chain(y), |v: A| json!(v.to_bits()))),
                        o => panic!("harness: iterator kind {o}"),
                    }
                    json!({"items": items, "done": done})
                })
            }
            "itmix" => {
                // advance the iterator by `adv` next() calls, then hand the rest to a consumer that may use
                // internal iteration (fold / try_fold / nth / size_hint specialisations)
                let kind = gs(op, "kind");
                let w = op["w"].as_u64().unwrap_or(0) as usize;
                let adv = gu(op, "adv");
                let consumer = gs(op, "consumer");
                fn consume<T, I: Iterator<Item = T>>(mut it: I, adv: usize, consumer: &str, cap: usize, f: &dyn Fn(T) -> Value) -> Value {
                    for _ in 0..adv {
                        if it.next().is_none() {
                            // exhausted while advancing: nothing is left for any consumer
                            return match consumer {
                                "count" | "overshoot_count" => json!({"count": 0}),
                                "last" => json!({"some": false}),
                                _ => json!({"items": []}),
                            };
                        }
                    }
                    let rest: Vec<Value> = match consumer {
                        // jump far past the end with nth(): no item may come out, then or afterwards
                        "overshoot_count" => {
                            let jumped = it.nth(cap + 64).is_some();
                            return json!({"count": it.count() + usize::from(jumped)});
                        }
                        "overshoot_next" => {
                            let mut v = Vec::new();
                            if let Some(x) = it.nth(cap + 7) {
                                v.push(f(x));
                            }
                            for _ in 0..4 {
                                if let Some(x) = it.next() {
                                    v.push(f(x));
                                }
                            }
                            v
                        }
                        "next" => {
                            let mut v = Vec::new();
                            for _ in 0..cap {
                                match it.next() {
                                    Some(x) => v.push(f(x)),
                                    None => break,
                                }
                            }
                            v
                        }
                        "fold" => it.fold(Vec::new(), |mut v, x| {
                            v.push(f(x));
                            v
                        }),
                        "for_each" => {
                            let mut v = Vec::new();
                            it.for_each(|x| v.push(f(x)));
                            v
                        }
                        "collect" => it.map(|x| f(x)).collect(),
                        "count" => return json!({"count": it.count()}),
                        "last" => {
                            return match it.last() {
                                Some(x) => json!({"some": true, "item": f(x)}),
                                None => json!({"some": false}),
                            }
                        }
                        "skip1" => it.skip(1).map(|x| f(x)).collect(),
                        "step2" => it.step_by(2).map(|x| f(x)).collect(),
                        "peekable" => {
                            let mut p = it.peekable();
                            let _ = p.peek();
                            p.map(|x| f(x)).collect()
                        }
                        "enumerate" => it.enumerate().map(|(_, x)| f(x)).collect(),
                        "nth1" => {
                            let mut v = Vec::new();
                            while let Some(x) = it.nth(1) {
                                v.push(f(x));
                                if v.len() > cap {
                                    break;
                                }
                            }
                            v
                        }
                        "take3" => it.take(3).map(|x| f(x)).collect(),
                        "zip" => it.zip(0..).map(|(x, _)| f(x)).collect(),
                        o => panic!("harness: consumer {o}"),
                    };
                    json!({"items": rest})
                }
                self.with_src(&op["x"], &mut |x| {
                    let cap = x.len() + 8;
                    match kind {
                        "iter" => consume(x.iter(), adv, consumer, cap, &|v: A| json!(v.to_bits())),
                        "rev" => consume(x.rev_iter(), adv, consumer, cap, &|v: A| json!(v.to_bits())),
                        "windows" => consume(x.windows(w), adv, consumer, cap, &|v: &SeqSlice<A>| view(v)),
                        "chunks" => consume(x.chunks(w), adv, consumer, cap, &|v: &SeqSlice<A>| view(v)),
                        "kmers" => kd::kmers_mix(x, w, adv, consumer, cap),
                        o => panic!("harness: iterator kind {o}"),
                    }
                })
            }
            "itnew" => {
                let kind = gs(op, "kind");
                let w = op["w"].as_u64().unwrap_or(0) as usize;
                let slot = gu(op, "it");
                // the iterator borrows a private copy of the PARENT register re-sliced along the
                // same path, so the slice keeps its offset and later edits cannot invalidate it
                let own = |src: &Value| -> (&'static SeqSlice<A>, Option<Box<dyn std::any::Any>>) {
                    assert_eq!(gs(src, "base"), "reg", "harness: step-wise iterators take register sources");
                    let r = gu(src, "r");
                    if r >= NREG {
                        (walk(self.lits[r - NREG].unwrap(), &src["path"]), None)
                    } else {
                        let b: Box<Seq<A>> = Box::new(self.regs[r].as_ref().unwrap().clone());
                        let p: &'static Seq<A> = unsafe { &*(b.as_ref() as *const Seq<A>) };
                        (walk(p, &src["path"]), Some(b as Box<dyn std::any::Any>))
                    }
                };
                let (x, ox) = own(&op["x"]);
                let mut keep: Vec<Box<dyn std::any::Any>> = Vec::new();
                if let Some(o) = ox {
                    keep.push(o);
                }
                let it: Box<dyn Iterator<Item = Value>> = match kind {
                    "iter" => Box::new(x.iter().map(|v| json!(v.to_bits()))),
                    "rev" => Box::new(x.rev_iter().map(|v| json!(v.to_bits()))),
                    "windows" => Box::new(x.windows(w).map(|v| view(v))),
                    "chunks" => Box::new(x.chunks(w).map(|v| view(v))),
                    "kmers" => kd::kmer_iter_boxed(x, w),
                    "chain" => {
                        let (y, oy) = own(&op["y"]);
                        if let Some(o) = oy {
                            keep.push(o);
                        }
                        Box::new(x.chain(y).map(|v| json!(v.to_bits())))
                    }
                    o => panic!("harness: iterator kind {o}"),
                };
                self.iters[slot] = Some(ItBox { _own: Some(Box::new(keep)), it });
                json!({"ok": true})
            }
            "itnext" => {
                let slot = gu(op, "it");
                let b = self.iters[slot].as_mut().expect("harness: iterator slot empty");
                match b.it.next() {
                    Some(v) => json!({"some": true, "item": v}),
                    None => json!({"some": false}),
                }
            }
            // ---------------------------------------------------------------- IUPAC contains, conversion, translation
            "contains" | "convert" | "toamino" | "trytoamino" | "trytocodon" | "textbase" => {
                crate::special::exec_special(self, op)
            }
            // ---------------------------------------------------------------- custom codon tables
            "tablenew" => {
                let pairs: Vec<(Seq<A>, Amino)> = op["entries"]
                    .as_array()
                    .unwrap()
                    .iter()
                    .map(|e| {
                        // the key is the same CONTENT however it was produced
                        let ks: Vec<A> = gsyms::<A>(&e["k"]);
                        let filler: A = A::items().last().unwrap();
                        let key: Seq<A> = match e["mk"].as_str().unwrap_or("collect") {
                            "collect" => ks.iter().copied().collect(),
                            "truncate" => {
                                let mut s: Seq<A> = ks.iter().copied().chain((0..9).map(|_| filler)).collect();
                                s.truncate(ks.len());
                                s
                            }
                            "remove" => {
                                let mut s: Seq<A> = (0..7).map(|_| filler).chain(ks.iter().copied()).chain((0..5).map(|_| filler)).collect();
                                s.remove(ks.len() + 7..);
                                s.remove(..7);
                                s
                            }
                            "offset" => {
                                let s: Seq<A> = (0..11).map(|_| filler).chain(ks.iter().copied()).chain((0..3).map(|_| filler)).collect();
                                s[11..11 + ks.len()].to_owned()
                            }
                            "clearpush" => {
                                let mut s: Seq<A> = (0..40).map(|_| filler).collect();
                                s.clear();
                                for &x in &ks {
                                    s.push(x);
                                }
                                s
                            }
                            o => panic!("harness: mk {o}"),
                        };
                        (key, sym::<Amino>(e["v"].as_u64().unwrap() as u8))
                    })
                    .collect();
                // every `Into<HashMap<Seq, Amino>>` source
                let table = match op["via"].as_str().unwrap_or("hashmap") {
                    "hashmap" => CodonTable::from_map(pairs.into_iter().collect::<HashMap<Seq<A>, Amino>>()),
                    "vec" => {
                        let mut m: HashMap<Seq<A>, Amino> = HashMap::with_capacity(1);
                        for (k, v) in pairs.into_iter().rev() {
                            m.entry(k).or_insert(v);
                        }
                        CodonTable::from_map(m)
                    }
                    "btree" => {
                        let mut m: HashMap<Seq<A>, Amino> = HashMap::new();
                        m.extend(pairs);
                        m.shrink_to_fit();
                        CodonTable::from_map(m)
                    }
                    "array" => match pairs.len() {
                        0 => CodonTable::from_map::<[(Seq<A>, Amino); 0]>([]),
                        1 => CodonTable::from_map::<[(Seq<A>, Amino); 1]>(pairs.try_into().ok().unwrap()),
                        2 => CodonTable::from_map::<[(Seq<A>, Amino); 2]>(pairs.try_into().ok().unwrap()),
                        3 => CodonTable::from_map::<[(Seq<A>, Amino); 3]>(pairs.try_into().ok().unwrap()),
                        4 => CodonTable::from_map::<[(Seq<A>, Amino); 4]>(pairs.try_into().ok().unwrap()),
                        _ => CodonTable::from_map(pairs.into_iter().collect::<HashMap<Seq<A>, Amino>>()),
                    },
                    o => panic!("harness: tablenew via {o}"),
                };
                self.tabs[gu(op, "t")] = Some(table);
                json!({"ok": true})
            }
            "tableamino" => {
                let t = self.tabs[gu(op, "t")].as_ref().unwrap();
                self.with_src(&op["src"], &mut |s| match t.try_to_amino(s) {
                    Ok(a) => json!({"k": "ok", "aa": a.to_bits()}),
                    Err(e) => json!({"k": tr_err_kind(&e)}),
                })
            }
            "tablecodon" => {
                let t = self.tabs[gu(op, "t")].as_ref().unwrap();
                match t.try_to_codon(sym::<Amino>(gu(op, "aa") as u8)) {
                    Ok(c) => json!({"k": "ok", "codon": c.iter().map(|x| x.to_bits()).collect::<Vec<u8>>()}),
                    Err(e) => json!({"k": tr_err_kind(&e)}),
                }
            }
            "reset" => {
                self.reset();
                json!({"init": true})
            }
            o => panic!("harness: unknown op {o}"),
        }
    }
}

pub fn merge(op: &Value, obs: Value) -> Value {
    let mut m: Map<String, Value> = op.as_object().unwrap().clone();
    m.insert("obs".into(), obs);
    Value::Object(m)
}
