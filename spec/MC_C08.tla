------------------------------- MODULE MC_C08 -------------------------------
(* C08: the k-mers of a sequence are its width-K windows; construction       *)
(* succeeds exactly when the length is K.                                    *)
EXTENDS MCBase
CONSTANTS MaxLen, MaxK

Alpha == {0, 3}
Checked(A, P) == A /\ Assert(P, "a k-mer iteration/construction law fails on the specification")

MCNext ==
    \/ \E s \in SeqsUpTo(Alpha, MaxLen) : FromSyms(0, "dna", s)
    \/ /\ reg[0].c # "none"
       /\ \E K \in 1 .. MaxK :
             \/ \E src \in Sources1(0) :
                   Checked(Kmers(src, K),
                           LET x == Resolve(src).s IN
                           /\ Len(out'.items) = (IF Len(x) >= K THEN Len(x) - K + 1 ELSE 0)
                           /\ \A i \in 1 .. Len(out'.items) :
                                 out'.items[i] = KView([c |-> "dna", k |-> K, st |-> 64, p |-> SubSeq(x, i, i + K - 1)])
                           /\ Len(out'.items) = Len(Windows(x, K)))
             \/ \E src \in Sources1(0) : \E st \in {64, 128} :
                   Checked(KFrom(0, src, K, st),
                           LET x == Resolve(src).s IN
                           /\ out'.ok <=> Len(x) = K
                           /\ out'.ok => /\ KSyms(kreg'[0]) = x
                                         /\ out'.kv.disp = Display("dna", x)
                                         /\ BitsOfLimbs(out'.kv.limbs) = KWord(x, 2, st)
                           /\ ~out'.ok => kreg' = kreg)
             \/ \E bytes \in SeqsUpTo({chA, chT, 120}, 3) :
                   Checked(KParse(0, "dna", K, 64, bytes),
                           out'.ok <=> (Len(bytes) = K /\ \A i \in 1 .. Len(bytes) : bytes[i] # 120))
    \/ /\ kreg[0].c # "none"
       /\ Checked(KToSeq(1, 0), reg'[1].s = KSyms(kreg[0]))
MCSpec == Init /\ [][MCNext]_vars
NoCopy == reg[1].c = "none"
=============================================================================
