SPECIFICATION GSpec
CONSTANTS
    NR = 3
    NK = 2
    NT = 1
    NI = 1
    Depth = 14
    GenCodecs = {"dna", "iupac", "amino", "text", "mdna", "miupac", "degen", "x3", "x7"}
INVARIANT Emit
CHECK_DEADLOCK FALSE
