"""Shared plumbing: running cargo / TLC, validating a recorded trace against spec/Trace.tla,
known-finding handling."""
import fcntl
import json
import time
import os
import re
import shutil
import subprocess

ROOT = os.path.dirname(os.path.dirname(os.path.abspath(__file__)))
SPEC = os.path.join(ROOT, "spec")
HARNESS = os.path.join(ROOT, "harness")
OUT = os.path.join(ROOT, "out")
EVID = os.path.join(ROOT, "evidence")

# every JVM started by this process gets a private temp directory under out/ (TLC leaves an empty
# tlc-<n> directory behind per run); it is removed when the process exits
JAVA_TMP = os.path.join(OUT, "tmp", str(os.getpid()))


def _java_tmp():
    os.makedirs(JAVA_TMP, exist_ok=True)
    return " -Djava.io.tmpdir=" + JAVA_TMP


import atexit  # noqa: E402
atexit.register(lambda: shutil.rmtree(JAVA_TMP, ignore_errors=True))
TLC_ENV = {"JAVA_TOOL_OPTIONS": "-Xss1g -Xmx3g -Dtlc2.tool.queue.IStateQueue=StateDeque"}
PROFILES = {"dev": "debug", "release": "release"}
NATIVE_TARGET = os.path.join(HARNESS, "target-native")


class ToolError(Exception):  # noqa: shared by check, s2i, progen
    pass


def log(*a):
    print(*a, flush=True)


def run(cmd, cwd=None, env=None, timeout=None):
    e = dict(os.environ)
    e.setdefault("CARGO_NET_OFFLINE", "true")
    # the build must land where bsx() looks for it, whatever the caller's environment says
    for k in ("CARGO_TARGET_DIR", "CARGO_BUILD_TARGET_DIR", "CARGO_BUILD_TARGET", "RUSTFLAGS", "CARGO_ENCODED_RUSTFLAGS",
              "CARGO_BUILD_RUSTFLAGS", "CARGO_PROFILE_DEV_DEBUG_ASSERTIONS", "CARGO_PROFILE_RELEASE_DEBUG_ASSERTIONS"):
        e.pop(k, None)
    if env:
        e.update(env)
    p = subprocess.run(cmd, cwd=cwd, env=e, stdout=subprocess.PIPE, stderr=subprocess.STDOUT, timeout=timeout)
    return p.returncode, p.stdout.decode("utf-8", "replace")


# ------------------------------------------------------------------------------ build
def build_harness(native=False):
    """(re)build the harness against /repo's CURRENT working tree, both profiles; with native=True also a
    release build for the CPU of this machine (-C target-cpu=native: cfg(target_feature) code paths).
    The native build has its own target directory and runs alongside the other two."""
    os.makedirs(OUT, exist_ok=True)
    with open(os.path.join(HARNESS, ".buildlock"), "w") as lk:
        fcntl.flock(lk, fcntl.LOCK_EX)

        def plain():
            for prof in ("dev", "release"):
                cmd = ["cargo", "build", "--offline", "--quiet", "--target-dir", os.path.join(HARNESS, "target")] + \
                      (["--release"] if prof == "release" else [])
                rc, out = run(cmd, cwd=HARNESS, timeout=1800)
                if rc != 0:
                    raise ToolError("harness does not build against /repo (%s profile):\n%s" % (prof, out[-3000:]))

        def nat():
            cmd = ["cargo", "build", "--offline", "--quiet", "--release", "--target-dir", NATIVE_TARGET]
            rc, out = run(cmd, cwd=HARNESS, timeout=1800, env={"RUSTFLAGS": "-Awarnings -C target-cpu=native"})
            if rc != 0:
                raise ToolError("harness does not build against /repo (native profile):\n%s" % out[-3000:])

        import concurrent.futures as cf
        with cf.ThreadPoolExecutor(max_workers=2) as ex:
            futs = [ex.submit(plain)] + ([ex.submit(nat)] if native else [])
            for f in futs:
                f.result()


def bsx(profile):
    if profile == "native":
        return os.path.join(NATIVE_TARGET, "release", "bsx")
    return os.path.join(HARNESS, "target", PROFILES[profile], "bsx")


# ------------------------------------------------------------------------------ TLC
def tlc(module, cfg, metadir, env=None, workers=1, extra=(), timeout=3600):
    shutil.rmtree(metadir, ignore_errors=True)
    e = dict(TLC_ENV)
    if env:
        e.update(env)
    e["JAVA_TOOL_OPTIONS"] = e.get("JAVA_TOOL_OPTIONS", "") + _java_tmp()
    cmd = ["tlc", "-workers", str(workers), "-metadir", metadir, "-cleanup", "-noGenerateSpecTE",
           "-config", cfg] + list(extra) + [module]
    try:
        rc, out = run(cmd, cwd=SPEC, env=e, timeout=timeout)
    except subprocess.TimeoutExpired:
        raise ToolError("TLC timed out on %s" % module)
    shutil.rmtree(metadir, ignore_errors=True)
    return out


def validate_trace(path, tag):
    """-> dict(accepted: bool, n: events, first_unmatched: int|None, message: str, known: [..])"""
    out = tlc("Trace.tla", "Trace.cfg", os.path.join(OUT, "tlc", tag), env={"TRACE": path})
    known = re.findall(r'<<"KNOWN", (\d+), "([^"]*)">>', out)
    m = re.search(r'<<"ACCEPTED", (\d+)>>', out)
    if m:
        return dict(accepted=True, n=int(m.group(1)), first_unmatched=None, message="", known=known)
    m = re.search(r'<<"REJECTED", (\d+), (\d+)>>', out)
    if m:
        msg = ""
        i = out.find('"MISMATCH"')
        if i >= 0:
            j = out.find('<<"REJECTED"', i)
            msg = "<< " + out[i:j].strip()
            msg = re.sub(r"\s+", " ", msg)
        return dict(accepted=False, n=int(m.group(2)), first_unmatched=int(m.group(1)), message=msg, known=known)
    raise ToolError("TLC could not evaluate the trace %s:\n%s" % (path, trim_tlc(out)))


def trim_tlc(out):
    keep = [l for l in out.splitlines() if not re.match(r"^(Parsing|Semantic|Linting|Picked|/\\ |State \d+|$)", l)]
    return "\n".join(keep[:60])


def model_check(mc, tag, tier="quick", workers=4):
    """run one MC_*.cfg (MC_*_T.cfg in the thorough tier when it exists); -> dict(states, transitions)"""
    cfg = mc + ".cfg"
    if tier == "thorough" and os.path.exists(os.path.join(SPEC, mc + "_T.cfg")):
        cfg = mc + "_T.cfg"
        workers = 8
    out = tlc(mc + ".tla", cfg, os.path.join(OUT, "tlc", tag), workers=workers,
              env={"JAVA_TOOL_OPTIONS": "-Xss64m -Xmx6g"})
    ok = "No error has been found" in out
    m = re.search(r"(\d+) states generated, (\d+) distinct states found", out)
    if not ok or not m:
        raise ToolError("model checking %s failed (the specification itself breaks a law):\n%s" % (mc, trim_tlc(out)))
    return dict(name=mc, cfg=cfg, transitions=int(m.group(1)), states=int(m.group(2)))


# ------------------------------------------------------------------------------ known findings
def load_known():
    p = os.path.join(ROOT, "known_findings.json")
    if not os.path.exists(p):
        return []
    return [k for k in json.load(open(p)).get("findings", []) if k.get("status") == "known"]


def event_matches(ev, pat):
    """a known-finding pattern is a dict of dotted-path -> value that must all match the event"""
    for path, want in pat.items():
        cur = ev
        for part in path.split("."):
            if isinstance(cur, dict) and part in cur:
                cur = cur[part]
            else:
                return False
        if cur != want:
            return False
    return True



def validate_with_known(pid, path, tag, known):
    """validate; when the first unmatched event is a listed known finding, mark it and go on"""
    taken = []
    for _ in range(200):
        r = validate_trace(path, tag)
        if r["accepted"]:
            r["taken"] = taken
            return r
        idx = r["first_unmatched"]
        lines = open(path).read().splitlines()
        ev = json.loads(lines[idx - 1])
        hit = None
        for k in known:
            if k["property"] == pid and event_matches(ev, k["match"]):
                hit = k
                break
        if hit is None:
            r["taken"] = taken
            r["event"] = ev
            return r
        ev["known"] = hit["key"]
        lines[idx - 1] = json.dumps(ev)
        open(path, "w").write("\n".join(lines) + "\n")
        taken.append(hit["key"])
    raise ToolError("too many known-finding deviations in one trace")




def apalache_inductive(module, tag):
    """unbounded design check with Apalache: Init => IndInv, IndInv /\\ Next => IndInv', IndInv => Safety"""
    d = os.path.join(SPEC, "apalache")
    outdir = os.path.join(OUT, "apalache", tag)
    shutil.rmtree(outdir, ignore_errors=True)
    os.makedirs(outdir, exist_ok=True)
    steps = [("Init", "IndInv", "0"), ("IndInit", "IndInv", "1"), ("IndInit", "Safety", "0")]
    t0 = time.time()
    for init, inv, length in steps:
        cmd = ["apalache-mc", "check", "--out-dir=" + outdir, "--cinit=ConstInit", "--init=" + init, "--inv=" + inv,
               "--length=" + length, module + ".tla"]
        try:
            rc, out = run(cmd, cwd=d, timeout=900)
        except subprocess.TimeoutExpired:
            raise ToolError("apalache timed out on %s (%s => %s)" % (module, init, inv))
        if "The outcome is: NoError" not in out:
            raise ToolError("apalache does not establish %s => %s for %s:\n%s" % (init, inv, module, out[-1500:]))
    shutil.rmtree(outdir, ignore_errors=True)
    return dict(name=module, obligations=len(steps), discharged=len(steps), wall=round(time.time() - t0, 1),
                what="inductive invariant, unbounded in N and Wd")


def run_group(cmd, cwd, timeout, marker):
    """run a command in its own session and make sure NOTHING it started outlives it: tlapm starts several
    back-end provers per obligation and abandons the slower ones, which then keep a core busy for ever.
    Afterwards the whole process group is killed, and so is any process whose command line mentions
    `marker` (the private cache directory of this run)."""
    import signal
    e = dict(os.environ)
    for k in ("CARGO_TARGET_DIR", "RUSTFLAGS", "CARGO_BUILD_TARGET_DIR", "CARGO_ENCODED_RUSTFLAGS"):
        e.pop(k, None)
    p = subprocess.Popen(cmd, cwd=cwd, env=e, stdout=subprocess.PIPE, stderr=subprocess.STDOUT, start_new_session=True)
    try:
        out, _ = p.communicate(timeout=timeout)
    finally:
        try:
            os.killpg(p.pid, signal.SIGKILL)
        except OSError:
            pass
        for pid in [x for x in os.listdir("/proc") if x.isdigit()]:
            try:
                cl = open("/proc/%s/cmdline" % pid, "rb").read().decode("utf-8", "replace")
            except OSError:
                continue
            if marker in cl and int(pid) != os.getpid():
                try:
                    os.kill(int(pid), signal.SIGKILL)
                except OSError:
                    pass
    return p.returncode, out.decode("utf-8", "replace")


def tlaps_proof(module, tag):
    """unbounded proof with the TLA+ proof system: every obligation of spec/tlaps/<module>.tla must be discharged
    (fingerprints are not trusted: the cache directory is private to the run and removed afterwards)"""
    d = os.path.join(SPEC, "tlaps")
    cache = os.path.join(OUT, "tlaps", tag)
    shutil.rmtree(cache, ignore_errors=True)
    os.makedirs(cache, exist_ok=True)
    t0 = time.time()
    # a loaded machine makes the SMT back end time out on obligations it otherwise discharges in a second:
    # retry with all prover time limits stretched before calling it a failure
    for stretch in ("1", "4", "12"):
        try:
            rc, out = run_group(["tlapm", "--threads", "6", "--stretch", stretch, "--cleanfp", "--cache-dir", cache, module + ".tla"],
                                cwd=d, timeout=2400, marker=cache)
        except subprocess.TimeoutExpired:
            raise ToolError("tlapm timed out on %s" % module)
        m = re.search(r"All (\d+) obligations? proved", out)
        if rc == 0 and m:
            break
    shutil.rmtree(cache, ignore_errors=True)
    if rc != 0 or not m:
        raise ToolError("tlapm does not prove %s:\n%s" % (module, out[-2000:]))
    return dict(name=module, obligations=int(m.group(1)), discharged=int(m.group(1)), wall=round(time.time() - t0, 1),
                what="TLAPS proof, unbounded")
