SPECIFICATION TraceSpec
CONSTANTS
    NR = 24
    NK = 16
    NT = 4
    NI = 4
INVARIANT TraceInv
POSTCONDITION TraceAccepted
CHECK_DEADLOCK FALSE
