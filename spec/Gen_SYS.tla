------------------------------- MODULE Gen_SYS -------------------------------
(* Spec -> implementation for the WHOLE machine: random walks (TLC -simulate)   *)
(* through BioSeq with every family of action enabled side by side -- edits,    *)
(* copies, transforms, k-mer construction / word operations / conversion back,  *)
(* a step-wise iterator, observers, comparisons, integer images, conversion.    *)
(* What one family produces is what the next one consumes: a k-mer cut out of   *)
(* an edited sequence is rotated and inserted into another one, whose windows   *)
(* are then compared ...  Every walk is printed with the specification's `out`  *)
(* after every step and replayed into the real library, step by step.           *)
(*                                                                              *)
(* The per-property generators enumerate one family exhaustively; this one      *)
(* samples the interplay.  bin/check attributes a divergence at step i to the   *)
(* property that owns the operation of step i (bin/plan.py OWNER), so a check   *)
(* never reports a clause of another property.                                  *)
EXTENDS MCBase, Json
CONSTANTS Depth, GenCodecs

VARIABLES hist, fin
gvars == <<vars, hist, fin>>

\* fin: the walk is complete (a single successor, so that one walk prints one line although the
\* simulator evaluates the invariant on every candidate successor)
Ev(rec) == hist' = Append(hist, rec @@ [obs |-> out']) /\ fin' = fin

IsOrd(c) == c \in {"dna", "text", "mdna", "miupac", "degen", "x3", "x7"}

Sy(c, i) == Items(c)[((i - 1) % Len(Items(c))) + 1].code
\* a pattern without period 2 or 4, over the first five symbols of the codec
Pat(c, n, o) == [i \in 1 .. n |-> Sy(c, 1 + ((i * i + o + i \div 3) % 5))]
PerWord(c) == 64 \div W(c)

Live(r) == reg[r].c # "none"
KLive(k) == kreg[k].c # "none"
Busy == itr[0].live /\ ~ItDone(0)

Seeded == Len(hist) >= 2
Done == Len(hist) = Depth + 2

\* a few slices of register r: whole, inner, tail, head, one symbol
Srcs(r) ==
    LET n == Len(reg[r].s) IN
    {WholeReg(r)} \cup
    {[base |-> "reg", r |-> r, path |-> <<st>>] :
        st \in {s \in StepsIn(n) : \/ (s.f = "r" /\ <<s.a, s.b>> = <<1, n - 1>>)
                                    \/ (s.f = "rf" /\ s.a = n \div 2)
                                    \/ (s.f = "rt" /\ s.b = n \div 2)
                                    \/ (s.f = "idx" /\ s.a = n - 1)}}
\* slices of exactly K symbols, at the front and at the back
KSrcs(r, K) ==
    LET n == Len(reg[r].s) IN
    {[base |-> "reg", r |-> r, path |-> <<[f |-> "r", a |-> a, b |-> a + K]>>] : a \in {x \in {0, n - K} : n >= K} \cap (0 .. n)}     \* empty when n < K
KmerSrc(k) == [base |-> "kmer", r |-> k, path |-> <<>>]
SeqOp(src) == [kind |-> "seq", src |-> src]

StName(st) == IF st = 128 THEN "u128" ELSE "usize"
N32(n) == <<n \div 65536, n % 65536>>

GInit == Init /\ hist = <<>> /\ fin = FALSE

Seed ==
    \/ /\ Len(hist) = 0
       /\ \E c \in GenCodecs : \E n \in {3, PerWord(c) - 1, PerWord(c) + 1} :
             FromSyms(0, c, Pat(c, n, 0)) /\ Ev([op |-> "fromsyms", dst |-> 0, c |-> c, via |-> "iter", syms |-> Pat(c, n, 0)])
    \/ /\ Len(hist) = 1
       /\ LET c == reg[0].c IN
          FromSyms(1, c, Pat(c, 5, 1)) /\ Ev([op |-> "fromsyms", dst |-> 1, c |-> c, via |-> "vec", syms |-> Pat(c, 5, 1)])

Edit ==
    \E d \in RegIds : Live(d) /\
        LET n == Len(reg[d].s)  c == reg[d].c IN
        \/ \E x \in {Sy(c, 1), Sy(c, 4)} : Push(d, x) /\ Ev([op |-> "push", dst |-> d, x |-> x])
        \/ n >= 2 /\ \E st \in {[f |-> "rt", a |-> 0, b |-> 1], [f |-> "rf", a |-> n - 1, b |-> 0], [f |-> "r", a |-> n \div 2, b |-> n \div 2 + 1]} :
              RemoveRange(d, st) /\ Ev([op |-> "remove", dst |-> d, range |-> st])
        \/ n >= 1 /\ Truncate(d, n - 1) /\ Ev([op |-> "truncate", dst |-> d, n |-> n - 1])
        \/ \E o \in RegIds \ {d} : Live(o) /\ n + Len(reg[o].s) <= 3 * PerWord(c) /\ \E src \in Srcs(o) :
              \/ AppendSl(d, src) /\ Ev([op |-> "append", dst |-> d, src |-> src])
              \/ PrependSl(d, src) /\ Ev([op |-> "prepend", dst |-> d, src |-> src])
              \/ InsertSl(d, n \div 2, src) /\ Ev([op |-> "insert", dst |-> d, i |-> n \div 2, src |-> src])
        \/ \E k \in KRegIds : KLive(k) /\ kreg[k].st = 64 /\ kreg[k].c = c /\ n <= 3 * PerWord(c) /\      \* only machine-word k-mers deref to a slice
              \/ AppendSl(d, KmerSrc(k)) /\ Ev([op |-> "append", dst |-> d, src |-> KmerSrc(k)])
              \/ InsertSl(d, n \div 2, KmerSrc(k)) /\ Ev([op |-> "insert", dst |-> d, i |-> n \div 2, src |-> KmerSrc(k)])
        \/ \E t \in {"rev"} \cup (IF HasComp(c) THEN {"revcomp", "comp"} ELSE {}) :
              InPlace(d, t) /\ Ev([op |-> "inplace", dst |-> d, t |-> t])

Make ==
    \E d \in RegIds : \E r \in RegIds \ {d} : Live(r) /\
        \/ Clone(d, r) /\ Ev([op |-> "clone", dst |-> d, r |-> r])
        \/ \E src \in Srcs(r) : ToOwned(d, src) /\ Ev([op |-> "toowned", dst |-> d, src |-> src, via |-> "to_owned"])
        \/ \E src \in Srcs(r) : \E t \in {"rev"} \cup (IF HasComp(reg[r].c) THEN {"revcomp"} ELSE {}) :
              Copying(d, src, t) /\ Ev([op |-> "copying", dst |-> d, src |-> src, t |-> t, via |-> "slice"])
        \/ \E k \in KRegIds : KLive(k) /\ KToSeq(d, k) /\ Ev([op |-> "ktoseq", dst |-> d, ks |-> k])
        \/ \E fmt \in {"json", "bincode"} :
              /\ SerdeRT(d, r)
              /\ hist' = Append(hist, [op |-> "serde", dst |-> d, r |-> r, fmt |-> fmt, obs |-> [v |-> out', eq |-> TRUE, hasheq |-> TRUE]])
              /\ fin' = fin
        \/ reg[r].c = "iupac" /\ \E o \in RegIds : Live(o) /\ \E K \in {3, 5} : \E x \in KSrcs(r, K) : \E y \in KSrcs(o, K) : \E t \in {"or", "and"} :
              BitOp(d, x, y, t) /\ Ev([op |-> "bitop", dst |-> d, x |-> x, y |-> y, t |-> t, via |-> "ref"])

KNew ==
    \E kd \in KRegIds : \E r \in RegIds : Live(r) /\ \E K \in {1, 2, 3, 5} : \E st \in {64, 128} :
        /\ K * W(reg[r].c) <= st
        /\ \E src \in KSrcs(r, K) \cup (IF r = 0 THEN {WholeReg(r)} ELSE {}) :
              KFrom(kd, src, K, st) /\ Ev([op |-> "kfrom", kd |-> kd, src |-> src, k |-> K, st |-> StName(st), via |-> "slice"])

KAct ==
    \/ \E ks \in KRegIds : \E kd \in KRegIds : KLive(ks) /\
          LET kv == kreg[ks]  c == kv.c IN
          \/ \E x \in {Sy(c, 1), Sy(c, 3)} : \E t \in {"pushl", "pushr"} :
                KOp(kd, ks, t, x) /\ Ev([op |-> "kop", kd |-> kd, ks |-> ks, t |-> t, arg |-> x])
          \/ \E n \in {1, kv.k + 1} : \E t \in {"rotl", "rotr"} :
                KOp(kd, ks, t, N32(n)) /\ Ev([op |-> "kop", kd |-> kd, ks |-> ks, t |-> t, arg |-> N32(n)])
          \/ kv.st = 64 /\ \E t \in {"rev"} \cup (IF c = "dna" THEN {"revcomp"} ELSE {}) :
                KOp(kd, ks, t, 0) /\ Ev([op |-> "kop", kd |-> kd, ks |-> ks, t |-> t, via |-> "copy", arg |-> 0])
    \/ \E ks \in KRegIds : KLive(ks) /\ KObs(ks) /\ Ev([op |-> "kobs", ks |-> ks, via |-> "view"])

ItAct ==
    \/ ~Busy /\ \E r \in RegIds : Live(r) /\ \E x \in Srcs(r) :
          \/ \E kind \in {"iter", "rev"} : ItNew(0, kind, x, x, 0) /\ Ev([op |-> "itnew", it |-> 0, kind |-> kind, x |-> x, y |-> x, w |-> 0])
          \/ \E kind \in {"windows", "chunks"} : \E w \in {2, 3} :
                ItNew(0, kind, x, x, w) /\ Ev([op |-> "itnew", it |-> 0, kind |-> kind, x |-> x, y |-> x, w |-> w])
    \/ Busy /\ ItNext(0) /\ Ev([op |-> "itnext", it |-> 0])

Look ==
    \E r \in RegIds : Live(r) /\
        LET c == reg[r].c  n == Len(reg[r].s) IN
        \/ n >= 1 /\ \E src \in Srcs(r) : Obs(src, <<0, n - 1, n>>, <<0>>) /\ Resolve(src).s # <<>> /\ Ev([op |-> "obs", src |-> src, gets |-> <<0, n - 1, n>>, nths |-> <<0>>])
        \/ \E src \in Srcs(r) : ToText(src) /\ Ev([op |-> "str", src |-> src, via |-> "to_string"])
        \/ \E o \in RegIds : Live(o) /\ \E x \in Srcs(r) : \E y \in {WholeReg(o)} :
              Eq(Resolve(x), Resolve(y)) /\ Ev([op |-> "eq", x |-> [kind |-> "slice", src |-> x], y |-> SeqOp(y)])
        \/ \E k \in KRegIds : KLive(k) /\ \E x \in KSrcs(r, kreg[k].k) :
              Eq([c |-> kreg[k].c, s |-> KSyms(kreg[k])], Resolve(x))
              /\ Ev([op |-> "eq", x |-> [kind |-> "kmer", r |-> k], y |-> [kind |-> "slice", src |-> x]])
        \/ IsOrd(c) /\ \E o \in RegIds \ {r} : Live(o) /\ Len(reg[o].s) = n /\
              Cmp(reg[r], reg[o]) /\ Ev([op |-> "cmp", x |-> SeqOp(WholeReg(r)), y |-> SeqOp(WholeReg(o))])
        \/ \E q \in Srcs(r) : Live(0) /\ Live(1) /\
              MapGet(<<reg[0].s, reg[1].s>>, Resolve(q).s) /\ Ev([op |-> "mapget", keys |-> <<0, 1>>, q |-> q])

\* derived values: integers, k-mer runs, minimisers, conversion, translation, containment
Derive ==
    \E r \in RegIds : Live(r) /\
        LET c == reg[r].c  n == Len(reg[r].s) IN
        \/ \E src \in Srcs(r) : LET x == Resolve(src) IN
              /\ Len(x.s) > 0 /\ Len(x.s) * W(c) <= 64
              /\ ToInt(src, TRUE, 64, ToIntRes(src, TRUE, 64))
              /\ Ev([op |-> "toint", src |-> src, fallible |-> TRUE, width |-> 64, via |-> "try"])
        \/ \E src \in Srcs(r) : \E K \in {2, 3} : Kmers(src, K) /\ Ev([op |-> "kmers", src |-> src, k |-> K])
        \/ IsOrd(c) /\ \E src \in Srcs(r) : \E which \in {"min", "max"} :
              KMinMax(src, 3, which) /\ Ev([op |-> "kminmax", src |-> src, k |-> 3, which |-> which, via |-> "iter"])
        \/ c = "dna" /\ \E src \in Srcs(r) : \E to \in {"iupac", "text"} :
              Convert(src, to) /\ Ev([op |-> "convert", src |-> src, to |-> to, via |-> "sym"])
        \/ c = "dna" /\ \E src \in KSrcs(r, 3) :
              ToAmino(src, ToAminoRes(src)) /\ Ev([op |-> "toamino", src |-> src])
        \/ c = "iupac" /\ \E src \in KSrcs(r, 3) :
              TryToAmino(src, TryToAminoRes(src)) /\ TryToAminoRes(src).k # "free" /\ Ev([op |-> "trytoamino", src |-> src])
        \/ c = "iupac" /\ \E o \in RegIds : Live(o) /\ \E x \in KSrcs(r, 3) : \E y \in KSrcs(o, 3) :
              ContainsSl(x, y) /\ Ev([op |-> "contains", x |-> [kind |-> "slice", src |-> x], y |-> y])

KCmp ==
    /\ KLive(0) /\ KLive(1) /\ kreg[0].c = kreg[1].c /\ kreg[0].k = kreg[1].k /\ kreg[0].st = kreg[1].st /\ IsOrd(kreg[0].c)
    /\ Cmp([c |-> kreg[0].c, s |-> KSyms(kreg[0])], [c |-> kreg[1].c, s |-> KSyms(kreg[1])])
    /\ Ev([op |-> "cmp", x |-> [kind |-> "kmer", r |-> 0], y |-> [kind |-> "kmer", r |-> 1]])

KCmpOK ==
    KLive(0) /\ KLive(1) /\ kreg[0].c = kreg[1].c /\ kreg[0].k = kreg[1].k /\ kreg[0].st = kreg[1].st /\ IsOrd(kreg[0].c)

\* Two-level choice: first a family (uniformly among those that can act), then one of its
\* alternatives -- the simulator picks uniformly among SUCCESSORS, which would otherwise let the
\* families with many alternatives crowd out the iterator's single `next`.  RandomElement makes
\* this module a generator for `tlc -simulate` only; the properties are checked in MC_SYS.
Fams ==
    {"edit", "make", "knew", "it", "look", "derive"}
    \cup (IF \E k \in KRegIds : KLive(k) THEN {"kop"} ELSE {})
    \cup (IF KCmpOK THEN {"kcmp"} ELSE {})
    \cup (IF Busy THEN {"it2"} ELSE {})

Step ==
    /\ Seeded /\ ~Done
    /\ \E f \in {RandomElement(Fams)} :       \* bound once (a LET would re-draw at every mention)
       CASE f = "edit" -> Edit
         [] f = "make" -> Make
         [] f = "knew" -> KNew
         [] f = "kop" -> KAct
         [] f \in {"it", "it2"} -> ItAct
         [] f = "look" -> Look
         [] f = "derive" -> Derive
         [] f = "kcmp" -> KCmp

End == Done /\ ~fin /\ fin' = TRUE /\ UNCHANGED <<vars, hist>>

GNext == Seed \/ Step \/ End
GSpec == GInit /\ [][GNext]_gvars

Emit == fin => PrintT(<<"REPLAY", ToJson(hist)>>)
=============================================================================
