SPECIFICATION MCSpec
CONSTANTS
    NR = 2
    NK = 1
    NT = 1
    NI = 1
    MaxLen = 5
CONSTRAINT Bounded
VIEW MCView
INVARIANT TypeOK
INVARIANT PackLaws
PROPERTY OneRegChanges
CHECK_DEADLOCK FALSE
