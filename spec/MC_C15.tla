------------------------------- MODULE MC_C15 -------------------------------
(* C15: custom codon tables.  All partial maps from four codons to three     *)
(* residues, folded into the inverse map in EVERY order (the hash map's      *)
(* iteration order): the inverse answers by preimage count regardless.       *)
EXTENDS MCBase

Checked(A, P) == A /\ Assert(P, "a codon-table law fails on the specification")

Codons == {<<0>>, <<1>>, <<2, 3>>, <<3, 3, 0>>}
Residues == {AminoCode(chA), AminoCode(chK), AminoCode(chStar)}
NoneV == 99

\* all partial maps as entry sequences (in one fixed listing order; the fold order is explored separately)
CodonSeq == <<<<0>>, <<1>>, <<2, 3>>, <<3, 3, 0>>>>
EntriesOf(f) == SelectSeq([i \in 1 .. 4 |-> [k |-> CodonSeq[i], v |-> f[i]]], LAMBDA e : e.v # NoneV)

MCNext ==
    \/ /\ treg[0].c = "none"
       /\ \E f \in [1 .. 4 -> Residues \cup {NoneV}] : TableNew(0, "dna", EntriesOf(f))
    \/ \E key \in Codons : treg[0].c # "none" /\ key \in treg[0].pending /\ TableFold(0, key)
    \/ /\ TableBuilt(0)
       /\ \/ \E key \in Codons \cup {<<2>>, <<>>} :
                /\ reg[0].c = "none"
                /\ Checked(TableAmino(0, [base |-> "reg", r |-> 1, path |-> <<>>]), TRUE)
          \/ \E aa \in Residues \cup {AminoCode(chW)} :
                Checked(TableCodon(0, aa),
                        LET pre == {k \in DOMAIN treg[0].m : treg[0].m[k] = aa} IN
                        /\ (Cardinality(pre) = 1) <=> out'.k = "ok"
                        /\ out'.k = "ok" => out'.codon \in pre
                        /\ (Cardinality(pre) >= 2) <=> out'.k = "ambiguous"
                        /\ (pre = {}) <=> out'.k = "invalidamino"
                        /\ out' = InvLookup(treg[0], aa))                  \* the folded inverse agrees
MCSpec == Init /\ [][MCNext]_vars

\* forward lookups on the built table
Forward ==
    TableBuilt(0) =>
        \A key \in Codons \cup {<<2>>, <<>>} :
            /\ (key \in DOMAIN treg[0].m) => TableToAmino(treg[0].m, key) = [k |-> "ok", aa |-> treg[0].m[key]]
            /\ (key \notin DOMAIN treg[0].m) => TableToAmino(treg[0].m, key) = [k |-> "invalid"]
=============================================================================
