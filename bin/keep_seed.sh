#!/bin/bash
# bin/keep_seed.sh <seed-id> <property> <srcdir> <caught-by> <needs...>   -- store a confirmed seeded change
id="$1"; prop="$2"; src="$3"; caught="$4"; shift 4; needs="$*"
d=/verif/seeded/$id; mkdir -p $d
cp "$src/patch.diff" $d/patch.diff; cp "$src/demo.rs" $d/demo.rs; cp "$src/README.md" $d/AGENT_README.md 2>/dev/null
python3 - "$id" "$prop" "$caught" "$needs" <<'PY'
import json,sys
id,prop,caught,needs=sys.argv[1:5]
json.dump({"id":id,"breaks_property":prop,"needs_to_manifest":needs,
 "confirmed":"bin/confirm_seed.sh: patch applies to the pinned HEAD (with the fix: commits); existing suite (92 unit + 1 trybuild + 28 doctests) green with the patch; demo.rs (as bio-seq/tests/seed_demo.rs, --features translation,extra_codecs,serde) red with the patch, green without",
 "ran":"bin/mutant.sh seeded/%s/patch.diff quick %s  (git apply to /repo, run the check, git checkout -- .)"%(id,prop),
 "caught_by":caught},open('/verif/seeded/%s/meta.json'%id,'w'),indent=1)
PY
