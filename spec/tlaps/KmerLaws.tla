------------------------------ MODULE KmerLaws ------------------------------
(***************************************************************************)
(* Unbounded proof (TLAPS) of the list-level laws behind C09, for ANY K    *)
(* and ANY alphabet (PushR / PushL / RotL / RotR are the operators of      *)
(* SeqOps, written as functions on 1 .. K):                                *)
(*   - pushing on one end drops exactly one symbol from the other end and  *)
(*     keeps the order of the rest;                                        *)
(*   - pushing back the dropped symbol on the other end restores the k-mer;*)
(*   - rotating left by one is pushing the first symbol on the right end,  *)
(*     rotating right by one is pushing the last symbol on the left end,   *)
(*     and the two undo each other;                                        *)
(*   - the canonical form min(k, revcomp(k)) is the same for a k-mer and   *)
(*     its reverse complement whenever revcomp is an involution (which     *)
(*     TransformLaws proves), for any total order.                         *)
(* That the machine-word operations realise these list operations is what  *)
(* MC_C09 (refinement, bounded) and the traces (every K, every storage)    *)
(* establish.                                                              *)
(***************************************************************************)
EXTENDS Integers, TLAPS

CONSTANTS Sym, K
ASSUME KPos == K \in Nat /\ K >= 1

Kmers == [1 .. K -> Sym]
PushR(s, x) == [i \in 1 .. K |-> IF i < K THEN s[i + 1] ELSE x]     \* drop the first, append at the end
PushL(s, x) == [i \in 1 .. K |-> IF i = 1 THEN x ELSE s[i - 1]]     \* drop the last, insert at the front
RotL1(s) == [i \in 1 .. K |-> IF i < K THEN s[i + 1] ELSE s[1]]
RotR1(s) == [i \in 1 .. K |-> IF i = 1 THEN s[K] ELSE s[i - 1]]

THEOREM PushShape ==
    \A s \in Kmers : \A x \in Sym :
        /\ PushR(s, x) \in Kmers /\ PushL(s, x) \in Kmers
        /\ PushR(s, x)[K] = x /\ \A i \in 1 .. (K - 1) : PushR(s, x)[i] = s[i + 1]
        /\ PushL(s, x)[1] = x /\ \A i \in 2 .. K : PushL(s, x)[i] = s[i - 1]
  BY KPos DEF Kmers, PushR, PushL

THEOREM PushBackRestores ==
    \A s \in Kmers : \A x \in Sym :
        /\ PushL(PushR(s, x), s[1]) = s
        /\ PushR(PushL(s, x), s[K]) = s
<1> TAKE s \in Kmers
<1> TAKE x \in Sym
<1>1. PushL(PushR(s, x), s[1]) = [i \in 1 .. K |-> s[i]]
  BY KPos DEF Kmers, PushR, PushL
<1>2. PushR(PushL(s, x), s[K]) = [i \in 1 .. K |-> s[i]]
  BY KPos DEF Kmers, PushR, PushL
<1> QED
  BY <1>1, <1>2 DEF Kmers

THEOREM RotateIsPush ==
    \A s \in Kmers : RotL1(s) = PushR(s, s[1]) /\ RotR1(s) = PushL(s, s[K])
  BY KPos DEF Kmers, RotL1, RotR1, PushR, PushL

THEOREM RotationsUndoEachOther ==
    \A s \in Kmers : RotR1(RotL1(s)) = s /\ RotL1(RotR1(s)) = s
<1> TAKE s \in Kmers
<1>1. RotR1(RotL1(s)) = [i \in 1 .. K |-> s[i]]
  BY KPos DEF Kmers, RotL1, RotR1
<1>2. RotL1(RotR1(s)) = [i \in 1 .. K |-> s[i]]
  BY KPos DEF Kmers, RotL1, RotR1
<1> QED
  BY <1>1, <1>2 DEF Kmers

\* canonical form: for ANY involution rc and ANY total order given as a choice function Min
THEOREM CanonicalFormIsStrandIndependent ==
    ASSUME NEW rc \in [Kmers -> Kmers], \A k \in Kmers : rc[rc[k]] = k,
           NEW Min(_, _), \A a, b \in Kmers : Min(a, b) = Min(b, a)
    PROVE  \A k \in Kmers : Min(k, rc[k]) = Min(rc[k], rc[rc[k]])
  OBVIOUS
=============================================================================
