------------------------------- MODULE MC_C02 -------------------------------
(* C02: equality is content equality; the hasher input is a function of      *)
(* content; a k-mer hashes like the slice with the same content.             *)
EXTENDS MCBase
CONSTANTS MaxLen

\* one codec per symbol width, two symbols each
Cods == {"degen", "dna", "iupac", "miupac", "amino", "text"}
Two(c) == {Items(c)[1].code, Items(c)[Len(Items(c))].code}

Checked(A, P) == A /\ Assert(P, "an equality / hashing law fails on the specification")

\* both registers hold the same codec (sequences of different codecs are different types)
Load(d) ==
    \E c \in Cods : \E s \in SeqsUpTo(Two(c), MaxLen) :
        /\ (reg[1 - d].c = "none" \/ reg[1 - d].c = c)
        /\ FromSyms(d, c, s)

Val(r) == [c |-> reg[r].c, s |-> reg[r].s]

EqLaws(a, b) ==
    /\ EqContent(a, b) <=> (a.c = b.c /\ Len(a.s) = Len(b.s) /\ \A i \in 1 .. Len(a.s) : a.s[i] = b.s[i])
    /\ EqContent(a, b) <=> EqContent(b, a)
    /\ EqContent(a, a)
    \* packing is injective: equal bit images <=> equal content (same codec)
    /\ a.c = b.c => ((Pack(a.s, W(a.c)) = Pack(b.s, W(b.c))) <=> a.s = b.s)
    \* the slice feed (bits, then length) separates exactly the different contents
    /\ a.c = b.c => ((M_SliceHash(Pack(a.s, W(a.c)), W(a.c)) = M_SliceHash(Pack(b.s, W(b.c)), W(b.c))) <=> a.s = b.s)
    \* own display text equals, another sequence's display text does not
    /\ StrEq(a.c, a.s, Display(a.c, a.s))
    /\ a.c = b.c => (StrEq(a.c, a.s, Display(b.c, b.s)) <=> a.s = b.s)

KmerHashLaw(a) ==
    (Len(a.s) >= 1) =>
        \A S \in {64, 128} :
            /\ M_KmerHash(KWord(a.s, W(a.c), S), Len(a.s), W(a.c)) = M_SliceHash(Pack(a.s, W(a.c)), W(a.c))
            \* the mechanism as found (whole storage word) does NOT have this property
            /\ M_KmerHashWholeWord(KWord(a.s, W(a.c), S), Len(a.s), W(a.c)) # M_SliceHash(Pack(a.s, W(a.c)), W(a.c))

MCNext ==
    \/ Load(0) \/ Load(1)
    \/ (reg[0].c # "none" /\ reg[1].c # "none" /\
        Checked(Eq(Val(0), Val(1)), EqLaws(Val(0), Val(1)) /\ out'.eq = (Val(0) = Val(1)) /\ out'.ne = ~out'.eq))
    \/ \E r \in RegIds : reg[r].c # "none" /\ \E f \in {"f1", "f2"} : Checked(HashObs(Val(r), f), KmerHashLaw(Val(r)))
    \/ (reg[0].c # "none" /\ reg[1].c # "none" /\ reg[0].c = reg[1].c /\
        Checked(MapGet(<<reg[0].s>>, reg[1].s), out'.res = IF reg[0].s = reg[1].s THEN 0 ELSE -1))
MCSpec == Init /\ [][MCNext]_vars

\* the ghost map is explored for one content at a time (it multiplies states, not behaviour)
FeedSmall == Cardinality(DOMAIN feed) <= 1

\* equal content never gets two different feeds
FeedFunctional == \A k \in DOMAIN feed : feed[k] \in {"f1", "f2"}
=============================================================================
