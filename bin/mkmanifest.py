#!/usr/bin/env python3
"""Regenerate MANIFEST.json from bin/plan.py (claimed checks) + the hand-written texts below."""
import json, os, sys
ROOT = os.path.dirname(os.path.dirname(os.path.abspath(__file__)))
sys.path.insert(0, os.path.join(ROOT, "bin"))
from plan import PLAN
from texts import LEVEL_TEXT, NOT_APPLICABLE, TECHNIQUE

checks = []
for pid in sorted(PLAN):
    if pid in NOT_APPLICABLE:
        continue
    checks.append({
        "property_id": pid,
        "quick_cmd": "bin/check %s quick" % pid,
        "thorough_cmd": "bin/check %s thorough" % pid,
        "evidence_file": "evidence/%s.json" % pid,
        "replay_cmd_template": "bin/check %s --replay {path}" % pid,
        "engine": "tla-conformance",
        "level_claimed": {"category": "model_checking", "text": LEVEL_TEXT[pid], "design_ref": "DESIGN.md §4 (%s)" % pid},
        "level_note": "Trusted: the TLA+ specification in spec/ (written from the documentation), TLC 1.8 + CommunityModules Json/IOUtils, "
                      "rustc/cargo, the harness interpreter harness/src/world.rs (one function shared by trace recording and behaviour replay). "
                      "Bounded: exhaustive only where the evidence says exhaustive=true; elsewhere bounded-exhaustive structure plus seeded random traces, "
                      "both build profiles.",
        "technique": TECHNIQUE.get(pid, TECHNIQUE["default"]),
    })
m = {
    "version": 1,
    "setup_cmd": "bin/check setup",
    "hooks": {
        "guard": "none (no hooks: the library is sequential and its public API exposes the abstract state)",
        "enable": "not applicable - checks build /repo/bio-seq unmodified with features translation,extra_codecs,serde through harness/ (path dependency)",
        "baseline_off_cmd": "cd /repo && cargo test --workspace --no-fail-fast --offline",
        "source_commits": [],
        "add_only": True,
    },
    "engines": [{
        "name": "tla-conformance",
        "path": "bin/check",
        "serves_properties": [c["property_id"] for c in checks],
        "kind_free_text": "explicit TLA+ specification (spec/BioSeq.tla + Trace.tla) checked by TLC; implementation traces validated against it "
                          "(impl->spec) and TLC-generated behaviours replayed into the real library (spec->impl)",
    }],
    "checks": checks,
    "not_applicable": [{"property_id": k, "reason": v} for k, v in sorted(NOT_APPLICABLE.items())],
    "notes": "bin/check <id> quick|thorough|--replay <path>; exit 0 held, 1 with 'VIOLATION property=<id> replay=<path>', 2 tool error. "
             "Seeds from VERIF_SEED. known_findings.json lists fixed defects (status fixed suppresses nothing).",
}
json.dump(m, open(os.path.join(ROOT, "MANIFEST.json"), "w"), indent=1)
print("MANIFEST.json: %d checks, %d not applicable" % (len(checks), len(m["not_applicable"])))
