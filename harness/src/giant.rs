//! A sequence longer than 2^32 bits (spec/Giant.tla): rebuilt from a machine-word image whose
//! word j is a function of j alone, so that the specification knows every symbol without holding
//! a billion of them.  All `g*` operations are stateless: they act on (a copy of) this one value.
use crate::cx::Cx;
use crate::kd::{self, KReq, KRes};
use crate::world::{gs, gu, panic_obs, view, walk, World};
use bio_seq::prelude::*;
use serde_json::{json, Value};

/// word j of the image (spec/Giant.tla: GWord)
pub fn gword(j: u64) -> u64 {
    let l0 = j & 0xffff;
    let l1 = j >> 16;
    assert!(l1 < 65536, "harness: giant word index out of range");
    let l2 = (3 * l0 + l1 + 1) & 0xffff;
    let l3 = (l0 + 7 * l1 + 5) & 0xffff;
    l0 | (l1 << 16) | (l2 << 32) | (l3 << 48)
}

/// number of symbols (spec/Giant.tla: GiantLen)
pub fn giant_len<A: Cx>() -> usize {
    match A::BITS {
        4 => 1_073_741_824 + 4096,
        5 => 858_993_460 + 4096,
        o => panic!("harness: no giant sequence for a codec of width {o}"),
    }
}

/// first symbol whose bits lie at or beyond bit 2^32
pub fn giant_edge<A: Cx>() -> usize {
    match A::BITS {
        4 => 1_073_741_824,
        5 => 858_993_460,
        o => panic!("harness: no giant sequence for a codec of width {o}"),
    }
}

fn build<A: Cx>() -> Seq<A> {
    let n = giant_len::<A>();
    let words = (n * A::BITS as usize + 63) / 64;
    let image: Vec<usize> = (0..words as u64).map(|j| gword(j) as usize).collect();
    Seq::<A>::from_raw(n, &image).expect("harness: from_raw refused the giant image")
}

fn small<A: Cx>(xs: &Value) -> Seq<A> {
    xs.as_array().unwrap().iter().map(|x| crate::world::sym::<A>(x.as_u64().unwrap() as u8)).collect()
}

fn code<A: Cx>(x: A) -> i64 {
    i64::from(x.to_bits())
}

/// `s[i]` is a one-symbol slice
fn one<A: Cx>(s: &SeqSlice<A>) -> i64 {
    if s.len() != 1 {
        return -4;
    }
    s.iter().next().map_or(-4, code)
}

/// `Some(obs)` if `op` is one of the giant operations
pub fn exec<A: Cx>(w: &mut World<A>, op: &Value) -> Option<Value> {
    let name = gs(op, "op");
    if !matches!(name, "gobs" | "gview" | "git" | "gedit" | "gint" | "geq" | "gcopy" | "gkmer") {
        return None;
    }
    if w.giant.is_none() {
        w.giant = Some(build::<A>());
    }
    let g: &Seq<A> = w.giant.as_ref().unwrap();
    Some(match name {
        "gobs" => {
            let probes: Vec<usize> = op["probes"].as_array().unwrap().iter().map(|p| p.as_u64().unwrap() as usize).collect();
            let how = gs(op, "how");
            let syms: Vec<i64> = if how.starts_with("seq") {
                // the owned sequence itself is the receiver (methods found on Seq before Deref)
                assert!(op["path"].as_array().unwrap().is_empty(), "harness: Seq receiver takes no path");
                probes
                    .iter()
                    .map(|&i| match how {
                        "seqnth" => code(g.nth(i)),
                        "seqget" => g.get(i).map_or(-1, code),
                        "seqidx" => one(&g[i]),
                        o => panic!("harness: how {o}"),
                    })
                    .collect()
            } else {
                let s = walk(g, &op["path"]);
                probes
                    .iter()
                    .map(|&i| match how {
                        "nth" => code(s.nth(i)),
                        "get" => s.get(i).map_or(-1, code),
                        "idx" => one(&s[i]),
                        "iternth" => s.iter().nth(i).map_or(-1, code),
                        o => panic!("harness: how {o}"),
                    })
                    .collect()
            };
            let s = walk(g, &op["path"]);
            json!({"len": s.len(), "empty": s.is_empty(), "syms": syms})
        }
        "gview" => view(walk(g, &op["path"])),
        "git" => {
            let s = walk(g, &op["path"]);
            let (wd, skip, take) = (gu(op, "w"), gu(op, "skip"), gu(op, "take"));
            let via = gs(op, "via");
            fn pull<T>(it: &mut dyn Iterator<Item = T>, via: &str, skip: usize, take: usize, f: &dyn Fn(T) -> Value) -> Value {
                let mut items = Vec::new();
                let mut dead = false;
                match via {
                    "nth" => {
                        if skip > 0 && it.nth(skip - 1).is_none() {
                            dead = true;
                        }
                    }
                    "loop" => {
                        for _ in 0..skip {
                            if it.next().is_none() {
                                dead = true;
                                break;
                            }
                        }
                    }
                    o => panic!("harness: via {o}"),
                }
                if !dead {
                    for _ in 0..take {
                        match it.next() {
                            Some(x) => items.push(f(x)),
                            None => {
                                dead = true;
                                break;
                            }
                        }
                    }
                }
                let exhausted = dead || it.next().is_none();
                json!({"items": items, "exhausted": exhausted})
            }
            match gs(op, "kind") {
                "iter" => pull(&mut s.iter(), via, skip, take, &|x: A| json!(x.to_bits())),
                "rev" => pull(&mut s.rev_iter(), via, skip, take, &|x: A| json!(x.to_bits())),
                "windows" => pull(&mut s.windows(wd), via, skip, take, &|x: &SeqSlice<A>| view(x)),
                "chunks" => pull(&mut s.chunks(wd), via, skip, take, &|x: &SeqSlice<A>| view(x)),
                o => panic!("harness: kind {o}"),
            }
        }
        "gedit" => {
            let e = &op["e"];
            let mut c: Seq<A> = g.clone();
            match gs(e, "t") {
                "clone" => {}
                "push" => c.push(crate::world::sym::<A>(gu(e, "x") as u8)),
                "extend" => c.extend(small::<A>(&e["xs"]).iter()),
                "append" => c.append(&small::<A>(&e["xs"])),
                "truncate" => c.truncate(gu(e, "n")),
                "insert" => c.insert(gu(e, "i"), &small::<A>(&e["xs"])),
                "remove" => c.remove(gu(e, "a")..gu(e, "b")),
                o => panic!("harness: edit {o}"),
            }
            let syms: Vec<i64> = op["probes"].as_array().unwrap().iter().map(|p| c.get(p.as_u64().unwrap() as usize).map_or(-1, code)).collect();
            json!({"len": c.len(), "syms": syms})
        }
        "gint" => {
            let s = walk(g, &op["path"]);
            match usize::try_from(s) {
                Ok(u) => json!({"ok": true, "limbs": kd::limbs_of(u as u128, 1)}),
                Err(_) => json!({"ok": false}),
            }
        }
        "geq" => {
            let a = walk(g, &op["a"]);
            let b = walk(g, &op["b"]);
            json!({"eq": a == b, "ne": a != b})
        }
        "gcopy" => {
            let s = walk(g, &op["path"]);
            let r: Seq<A> = match gs(op, "t") {
                "rev" => Some(s.to_rev()),
                "comp" => A::sl_to_comp(s),
                "revcomp" => A::sl_to_revcomp(s),
                "toowned" => Some(s.to_owned()),
                o => panic!("harness: transform {o}"),
            }
            .expect("harness: codec lacks the transform");
            view(&r)
        }
        "gkmer" => {
            let s = walk(g, &op["path"]);
            let k = gu(op, "k");
            match kd::kcall::<A>(k, "usize", 0, KReq::FromSlice(s)) {
                KRes::K(Some(word)) => match kd::kcall::<A>(k, "usize", word, KReq::View) {
                    KRes::V(v) => json!({"ok": true, "kv": v}),
                    _ => unreachable!(),
                },
                KRes::K(None) => json!({"ok": false}),
                _ => unreachable!(),
            }
        }
        _ => panic_obs(),
    })
}
