SPECIFICATION MCSpec
CONSTANTS
    NR = 1
    NK = 1
    NT = 1
    NI = 1
INVARIANT Laws
CHECK_DEADLOCK FALSE
