//! C06: long random edit histories on several registers, lengths steered across
//! 1-3 machine words, argument slices that are windows of other registers at
//! arbitrary offsets, clones / copies kept and re-observed after later edits.
use crate::cx::Cx;
use crate::drv::{step, whole, Drv};
use serde_json::json;

const R: usize = 6;

pub fn run<A: Cx>(d: &mut Drv<A>, scale: usize) {
    let w = A::BITS as usize;
    let cap = 3 * 64 / w + 9;
    // seed registers: empty, short, word-boundary-1, word-boundary+1
    let seeds = [0, 3, 64 / w - 1, 64 / w + 1, 128 / w, 5];
    for r in 0..R {
        let t = d.rand_text(seeds[r]);
        d.emit(json!({"op": "parse", "dst": r, "c": A::NAME, "entry": "bytes", "bytes": t}));
    }
    for _ in 0..scale {
        let dst = d.rng.below(R);
        let n = d.len(dst);
        let mut other = d.rng.below(R);
        if other == dst {
            other = (dst + 1) % R;
        }
        let grow = n < cap;
        let choice = d.rng.below(100);
        match choice {
            0..=14 if grow => {
                let x = d.rand_syms(1)[0];
                d.emit(json!({"op": "push", "dst": dst, "x": x}));
            }
            15..=24 if grow => {
                let k = d.rng.below(7);
                let xs = d.rand_syms(k);
                if d.rng.chance(1, 2) {
                    d.emit(json!({"op": "extend", "dst": dst, "syms": xs}));
                } else {
                    // extend from an iterator whose size hint is only an upper bound (or absent)
                    let adaptor = *d.rng.pick(&crate::drv::ADAPTORS);
                    let junk = d.rng.range(1, 6);
                    let via = *d.rng.pick(&["inherent", "trait"]);
                    d.emit(json!({"op": "extend", "dst": dst, "syms": xs, "adaptor": adaptor, "junk": junk, "via": via}));
                }
            }
            25..=36 if grow => {
                // the argument: a window of another register, or of a static literal / a k-mer's own slice
                let src = if d.rng.chance(1, 6) { d.foreign_src().0 } else { d.rand_src(other) };
                d.emit(json!({"op": "append", "dst": dst, "src": src}));
            }
            37..=48 if grow => {
                let src = if d.rng.chance(1, 6) { d.foreign_src().0 } else { d.rand_src(other) };
                d.emit(json!({"op": "prepend", "dst": dst, "src": src}));
            }
            49..=62 if grow => {
                let src = if d.rng.chance(1, 6) { d.foreign_src().0 } else { d.rand_src(other) };
                let i = d.rng.range(0, n);
                d.emit(json!({"op": "insert", "dst": dst, "i": i, "src": src}));
            }
            63..=78 => {
                let st = d.rand_step(n);
                d.emit(json!({"op": "remove", "dst": dst, "range": st}));
            }
            79..=84 => {
                let k = d.rng.range(0, n);
                d.emit(json!({"op": "truncate", "dst": dst, "n": k}));
            }
            85..=86 => {
                d.emit(json!({"op": "clear", "dst": dst}));
            }
            87..=88 => {
                d.emit(json!({"op": "clone", "dst": dst, "r": other}));
            }
            89..=90 => {
                // built from scratch out of an iterator with a loose size hint
                let k = d.rng.range(0, 40);
                let xs = d.rand_syms(k);
                let adaptor = *d.rng.pick(&crate::drv::ADAPTORS);
                let junk = d.rng.range(1, 9);
                let via = *d.rng.pick(&["loosecollect", "looseextend"]);
                d.emit(json!({"op": "fromsyms", "dst": dst, "c": A::NAME, "via": via, "adaptor": adaptor, "junk": junk, "syms": xs}));
            }
            91..=95 => {
                let src = d.rand_src(other);
                let via = *d.rng.pick(&["to_owned", "from", "into", "collect"]);
                d.emit(json!({"op": "toowned", "dst": dst, "src": src, "via": via}));
            }
            _ => {
                // shrink hard from the front so later content sits after a drained head
                if n > 2 {
                    let k = d.rng.range(1, n - 1);
                    d.emit(json!({"op": "remove", "dst": dst, "range": step("rt", 0, k)}));
                }
            }
        }
        // re-observe one other register: edits never disturb anything else
        if d.rng.chance(1, 3) {
            d.obs(whole(other));
        }
    }
    for r in 0..R {
        d.obs(whole(r));
    }
    // growth: many single pushes / small extends on one value (reallocations, capacity doubling),
    // from an empty value created with different capacities
    for (cap_via, cap) in [("new", 0usize), ("withcap", 1), ("withcap", 1000), ("default", 0)] {
        d.emit(json!({"op": "new", "dst": 0, "c": A::NAME, "via": cap_via, "cap": cap}));
        let total = 150 + d.rng.below(3 * 64 / w + 200);
        let mut n = 0;
        while n < total {
            if d.rng.chance(3, 4) {
                let x = d.rand_syms(1)[0];
                d.emit(json!({"op": "push", "dst": 0, "x": x}));
                n += 1;
            } else {
                let k = d.rng.range(0, 70);
                let xs = d.rand_syms(k);
                d.emit(json!({"op": "extend", "dst": 0, "syms": xs}));
                n += k;
            }
        }
        d.emit(json!({"op": "clear", "dst": 0}));
        let xs = d.rand_syms(5);
        d.emit(json!({"op": "extend", "dst": 0, "syms": xs}));
    }
}
