//! C12: IUPAC sequences as per-position nucleotide sets: | , & , contains at
//! independent offsets; all 256 symbol pairs per position.
use crate::cx::Cx;
use crate::drv::{sl, whole, Drv};
use crate::special::IUPAC_ARR_LENS;
use serde_json::json;

pub fn run<A: Cx>(d: &mut Drv<A>, scale: usize, all: bool) {
    assert_eq!(A::NAME, "iupac");
    let codes = d.codes();
    // operands laid out so that all 16 x 16 symbol pairs meet: a[i*16+j] = i, b[i*16+j] = j
    let mut a = Vec::new();
    let mut b = Vec::new();
    for &i in &codes {
        for &j in &codes {
            a.push(i);
            b.push(j);
        }
    }
    let offs: Vec<(usize, usize)> = if all {
        (0..16).flat_map(|x| (0..16).map(move |y| (x, y))).collect()
    } else {
        vec![(0, 0), (1, 0), (0, 15), (7, 8), (15, 15), (3, 12)]
    };
    for _ in 0..scale.max(1) {
        for &(oa, ob) in &offs {
            let mut pa = d.rand_syms(oa);
            pa.extend_from_slice(&a);
            pa.push(codes[0]);
            let mut pb = d.rand_syms(ob);
            pb.extend_from_slice(&b);
            d.emit(json!({"op": "fromsyms", "dst": 0, "c": "iupac", "via": "iter", "syms": pa}));
            d.emit(json!({"op": "fromsyms", "dst": 1, "c": "iupac", "via": "vec", "syms": pb}));
            let x = sl(0, oa, oa + 256);
            let y = sl(1, ob, ob + 256);
            for (t, via) in [("or", "ref"), ("and", "ref"), ("or", "owned"), ("and", "owned"), ("or", "ownedcollect"), ("and", "ownedcollect")] {
                d.emit(json!({"op": "bitop", "dst": 2, "x": x.clone(), "y": y.clone(), "t": t, "via": via}));
            }
            // contains on every window of 16 (one pattern symbol against all 16)
            for i in 0..16 {
                let px = sl(0, oa + 16 * i, oa + 16 * i + 16);
                let py = sl(1, ob + 16 * i, ob + 16 * i + 16);
                d.emit(json!({"op": "contains", "x": {"kind": "slice", "src": px.clone()}, "y": py.clone()}));
                d.emit(json!({"op": "contains", "x": {"kind": "arr", "src": px.clone()}, "y": py.clone()}));
            }
        }
        // random operands, all receiver kinds, all length mismatches
        for _ in 0..24 {
            let n = *d.rng.pick(&IUPAC_ARR_LENS);
            let oa = d.rng.below(16);
            let ob = d.rng.below(16);
            let mut pa = d.rand_syms(oa);
            let pat = d.rand_syms(n);
            pa.extend_from_slice(&pat);
            pa.extend(d.rand_syms(3));
            // the argument: position-wise subset of the pattern most of the time
            let mut arg: Vec<u8> = pat.iter().map(|&p| if d.rng.chance(5, 6) { p & *d.rng.pick(&codes) } else { *d.rng.pick(&codes) }).collect();
            if d.rng.chance(1, 2) {
                for (q, &p) in arg.iter_mut().zip(pat.iter()) {
                    *q &= p;
                }
            }
            let mut pb = d.rand_syms(ob);
            pb.extend_from_slice(&arg);
            pb.extend(d.rand_syms(3));
            d.emit(json!({"op": "fromsyms", "dst": 0, "c": "iupac", "via": "iter", "syms": pa}));
            d.emit(json!({"op": "fromsyms", "dst": 1, "c": "iupac", "via": "iter", "syms": pb}));
            d.emit(json!({"op": "toowned", "dst": 3, "src": sl(0, oa, oa + n), "via": "to_owned"}));
            for dl in [0i64, -1, 1, -2, 2] {
                let m = n as i64 + dl;
                if m < 0 {
                    continue;
                }
                let y = sl(1, ob, ob + m as usize);
                d.emit(json!({"op": "contains", "x": {"kind": "seq", "src": whole(3)}, "y": y.clone()}));
                d.emit(json!({"op": "contains", "x": {"kind": "slice", "src": sl(0, oa, oa + n)}, "y": y.clone()}));
                d.emit(json!({"op": "contains", "x": {"kind": "arr", "src": sl(0, oa, oa + n)}, "y": y.clone()}));
            }
            // mismatches by whole words / powers of two
            if n >= 1 {
                let big = {
                    let mut v = arg.clone();
                    while v.len() < n + 1030 {
                        let k = v.len().min(n);
                        let head: Vec<u8> = v[..k].to_vec();
                        v.extend(head);
                    }
                    v
                };
                d.emit(json!({"op": "fromsyms", "dst": 6, "c": "iupac", "via": "iter", "syms": big}));
                for extra in [16usize, 32, 64, 256, 1024] {
                    d.emit(json!({"op": "contains", "x": {"kind": "seq", "src": whole(3)}, "y": sl(6, 0, n + extra)}));
                    d.emit(json!({"op": "contains", "x": {"kind": "slice", "src": sl(6, 0, n + extra)}, "y": whole(3)}));
                }
            }
            d.emit(json!({"op": "bitop", "dst": 4, "x": sl(0, oa, oa + n), "y": sl(1, ob, ob + n), "t": "or", "via": "ref"}));
            d.emit(json!({"op": "bitop", "dst": 5, "x": sl(0, oa, oa + n), "y": sl(1, ob, ob + n), "t": "and", "via": "ref"}));
            // the owned operators consume their operands: feed them what the borrowed operators on
            // windows at independent offsets just returned (and an equally long owned copy of a window)
            d.emit(json!({"op": "bitop", "dst": 10, "x": whole(4), "y": whole(5), "t": "and", "via": "move"}));
            d.emit(json!({"op": "bitop", "dst": 11, "x": whole(5), "y": whole(4), "t": "or", "via": "move"}));
            d.emit(json!({"op": "bitop", "dst": 10, "x": whole(4), "y": whole(3), "t": "or", "via": "move"}));
            d.emit(json!({"op": "bitop", "dst": 11, "x": whole(3), "y": whole(5), "t": "and", "via": "move"}));
            d.emit(json!({"op": "bitop", "dst": 4, "x": whole(10), "y": whole(11), "t": "or", "via": "move"}));
            d.emit(json!({"op": "bitop", "dst": 5, "x": sl(0, oa, oa + n), "y": sl(1, ob, ob + n), "t": "and", "via": "ref"}));
            d.emit(json!({"op": "bitop", "dst": 4, "x": sl(0, oa, oa + n), "y": sl(1, ob, ob + n), "t": "or", "via": "ref"}));
            // a | b contains both, both contain a & b
            d.emit(json!({"op": "contains", "x": {"kind": "seq", "src": whole(4)}, "y": sl(0, oa, oa + n)}));
            d.emit(json!({"op": "contains", "x": {"kind": "slice", "src": sl(1, ob, ob + n)}, "y": whole(5)}));
            // operands that are static literals / slices a k-mer dereferences to, against an equally long window
            {
                let (fs, fl) = d.foreign_src();
                let t = d.rand_syms(ob + fl + 1);
                d.emit(json!({"op": "fromsyms", "dst": 7, "c": "iupac", "via": "iter", "syms": t}));
                let win = sl(7, ob, ob + fl);
                for (x, y) in [(fs.clone(), win.clone()), (win.clone(), fs.clone()), (fs.clone(), fs.clone())] {
                    d.emit(json!({"op": "bitop", "dst": 8, "x": x.clone(), "y": y.clone(), "t": "or", "via": "ref"}));
                    d.emit(json!({"op": "bitop", "dst": 9, "x": x.clone(), "y": y.clone(), "t": "and", "via": "ref"}));
                    d.emit(json!({"op": "contains", "x": {"kind": "slice", "src": x.clone()}, "y": y.clone()}));
                }
            }
        }
        d.reset();
    }
}

/// DNA bases as singleton sets
pub fn run_dna_singletons<A: Cx>(d: &mut Drv<A>) {
    assert_eq!(A::NAME, "dna");
    for n in [0usize, 1, 4, 31, 33] {
        let o = d.rng.below(32);
        let t = d.rand_syms(o + n);
        d.emit(json!({"op": "fromsyms", "dst": 0, "c": "dna", "via": "iter", "syms": t}));
        d.emit(json!({"op": "convert", "src": sl(0, o, o + n), "to": "iupac", "via": "sym"}));
        d.emit(json!({"op": "convert", "src": sl(0, o, o + n), "to": "iupac", "via": "slice"}));
    }
}
