SPECIFICATION GSpec
CONSTANTS
    NR = 2
    NK = 1
    NT = 1
    NI = 1
    Depth = 2
    GenCodecs = {"dna", "iupac", "amino", "text", "mdna", "miupac", "degen"}
    SeedSel = "all"
INVARIANT Emit
CHECK_DEADLOCK FALSE
